"""Sidecar contracts for /repo/bisturi (never edits the repository)."""

ALL_MODULES = ['c_fragments', 'c_structural', 'c_field', 'c_packet', 'c_descriptor', 'c_purity', 'c_deferred', 'c_roundtrip', 'c_codegen', 'c_regexp']

_COMMON_TRUST = [
    'builtin/library contracts of DESIGN.md 2.5-2.6 (assumed; cross-checked against CPython by pyvc/crosscheck.py, bounded)',
]

_INT_FUNCS = ['structural_fields:Optional._compile', 'structural_fields:Sequence._compile',   # the class-default byte order reaches wrapped Ints
              'field:Field._compile_impl', 'field:Int._compile', 'field:Int._unpack_fixed_and_primitive_size',
              'field:Int._unpack_fixed_size', 'field:Int._pack_fixed_and_primitive_size', 'field:Int._pack_fixed_size']

_DATA_FUNCS = ['field:Data._compile', 'field:Data._unpack_fixed_size', 'field:Data._unpack_variable_size_field',
               'field:Data._unpack_variable_size_callable', 'field:Data._unpack_with_string_marker',
               'field:Data._unpack_with_regexp_marker', 'field:Data.pack']

_FRAME_FUNCS = ['field:Int._unpack_fixed_and_primitive_size', 'field:Int._unpack_fixed_size',
                'field:Int._pack_fixed_and_primitive_size', 'field:Int._pack_fixed_size', 'field:Int.init',
                'field:Data._unpack_fixed_size', 'field:Data._unpack_variable_size_field',
                'field:Data._unpack_variable_size_callable', 'field:Data._unpack_with_string_marker',
                'C13#field:Data._unpack_with_regexp_marker', 'field:Data.pack', 'field:Data.init',
                'field:Bits.unpack', 'field:Bits.pack', 'field:Field.init',
                'field:Ref._unpack_referencing_a_packet', 'field:Ref._pack_referencing_a_packet',
                'structural_fields:Sequence.unpack', 'structural_fields:Sequence.pack', 'structural_fields:Sequence.init',
                'structural_fields:Optional.unpack', 'structural_fields:Optional.pack', 'structural_fields:Optional.init',
                'structural_fields:Move.unpack', 'structural_fields:Move.pack',
                'packet:Packet.__init__', 'packet:Packet.unpack_impl', 'C13#packet:Packet.pack_impl',
                'packet:Packet.unpack', 'packet:Packet.pack', 'packet:Packet.__eq__', 'packet:Packet.__repr__',
                'descriptor:Auto.__get__', 'descriptor:Auto.sync_before_pack',
                'packet:Prototype.__init__', 'packet:Prototype._clone_from_pickle', 'packet:Prototype._clone_from_live_obj',
                'C13#field:Ref._unpack_using_callable', 'field:Ref._pack_with_callable', 'field:Ref.init',
                # evaluating a compiled expression must not keep state between calls (scratch stack is per call)
                'deferred:exec_compiled_expr', 'field:Ref._lets_find_a_nice_default']

_RT1 = ['ghost_clients:rt1_int_prim', 'ghost_clients:rt1_int_any', 'ghost_clients:rt1_data_fixed', 'ghost_clients:rt1_data_field',
        'ghost_clients:rt1_data_callable', 'ghost_clients:rt1_data_marker', 'ghost_clients:rt1_data_regex',
        'ghost_clients:rt1_bits_member', 'ghost_clients:rt1_move']
_RT2 = ['ghost_clients:rt2_int_prim', 'ghost_clients:rt2_int_any', 'ghost_clients:rt2_data_fixed']
_LOCAL = ['ghost_clients:loc_int_prim', 'ghost_clients:loc_int_any', 'ghost_clients:loc_data_fixed']
_LEAF_PAIRS = ['field:Int._unpack_fixed_and_primitive_size', 'field:Int._unpack_fixed_size',
               'field:Int._pack_fixed_and_primitive_size', 'field:Int._pack_fixed_size',
               'field:Data._unpack_fixed_size', 'field:Data._unpack_variable_size_field',
               'field:Data._unpack_variable_size_callable', 'field:Data._unpack_with_string_marker',
               'field:Data._unpack_with_regexp_marker', 'field:Data.pack', 'field:Bits.unpack', 'field:Bits.pack',
               'structural_fields:Move.unpack', 'structural_fields:Move.pack',
               'structural_fields:Sequence.unpack', 'structural_fields:Sequence.pack',
               'structural_fields:Optional.unpack', 'structural_fields:Optional.pack',
               'field:Ref._unpack_referencing_a_packet', 'field:Ref._pack_referencing_a_packet']
_COMPOSITION_NOTE = ('composition over the field table (each field starts where the previous one ended, values of earlier fields are not '
                     'overwritten) is the induction argument of DESIGN.md section 3 over the abstract field contract; it is NOT mechanised in this '
                     'round: what is proved are the per-kind lemmas over the contracts and the contracts of the drivers and structural fields')

PROPERTIES = {
    'C01': dict(
        level='proof',
        functions=_RT1 + _LEAF_PAIRS + ['fragments:Fragments.insert', 'fragments:Fragments.append', 'fragments:Fragments.tobytes',
                                        'packet:Packet.pack_impl', 'packet:Packet.unpack_impl'],
        lemmas=['C01.bits_identity', 'C07.pack_merge', 'C07.unpack_slice', 'C10.move_target_unique'],
        trusted_base=_COMMON_TRUST + ['ghost clients (contracts/ghost_clients.py) only call repository functions through their contracts'],
        assumptions=[_COMPOSITION_NOTE, 'exclusions exactly as in the statement: regex delimiter not kept in the value, consume_delimiter=False, embed=True',
                     'callable positioning targets return the same value in both phases (role contract)'],
    ),
    'C02': dict(
        level='proof',
        native_probe='probe_builder',
        functions=_RT2 + _LEAF_PAIRS + ['fragments:Fragments.insert', 'fragments:Fragments.append', 'fragments:Fragments.tobytes'],
        trusted_base=_COMMON_TRUST + ['ghost clients only call repository functions through their contracts'],
        assumptions=[_COMPOSITION_NOTE,
                     '"consistent with the declaration" is read as: integers in range, fixed Data of exactly n bytes (delimited Data, sequences and optionals: contracts of C06/C08 only, no serialise-then-parse lemma yet)'],
    ),
    'C14': dict(
        level='proof',
        functions=_LOCAL + ['structural_fields:Move.unpack', 'field:Data._unpack_with_string_marker',
                            'field:Data._unpack_with_regexp_marker', 'packet:Packet.unpack_impl',
                            # control decisions of containers depend on their callbacks only, never on what follows
                            'structural_fields:Optional.unpack', 'structural_fields:Sequence.unpack',
                            # the entry point hands the caller's buffer and offset on unchanged (no re-basing of positions)
                            'packet:Packet.unpack'],
        trusted_base=_COMMON_TRUST + ['ghost clients only call repository functions through their contracts'],
        assumptions=[_COMPOSITION_NOTE,
                     'delimited Data: locality follows from the search-window clauses of the C06 contract (first occurrence at or after the cursor); no separate embedded-parse lemma yet',
                     'relative positioning: Move.unpack depends on offset and innermost-pkt-pos only (its contract); reference="begins" is excluded by the statement'],
    ),
    'C03': dict(level='translation_validation', functions=[], special_driver='pyvc/check_c03.py'),
    'C18': dict(
        level='proof',
        functions=['fragments:FragmentsOfRegexps.__init__', 'fragments:FragmentsOfRegexps.insert', 'fragments:FragmentsOfRegexps.append', 'fragments:FragmentsOfRegexps.assemble_regexp',
                   'C18#field:Int._pack_fixed_and_primitive_size', 'C18#field:Int._pack_fixed_size', 'C18#field:Data.pack',
                   'field:Int.pack_regexp', 'field:Data.pack_regexp',
                   'packet:Packet.as_regular_expression_impl', 'packet:Packet.as_regular_expression',
                   # Bits.pack_regexp (bounded) lays the bits out MSB first over one big-endian integer: the layout _compile establishes
                   'field:Bits._compile',
                   # the literal piece of a delimited byte string re-emits the delimiter these two decoders remember (and only they may set it)
                   'field:Data._unpack_with_string_marker', 'field:Data._unpack_with_regexp_marker'],
        lemmas=['C18.int_pieces', 'C18.data_pieces', 'C18.not_consumed_delimiter', 'C18.constrained_any'],
        native_probe='probe_c18',
        trusted_base=_COMMON_TRUST + [
            'ASSUMED denotation of the piece shapes under (?s) (contracts/lemmas.py _rx_theory): re.escape(x) matches exactly x, ".{n}" exactly the strings of n bytes, '
            '".*" everything, the language of a concatenation contains the concatenations; cross-checked against CPython re on every run (bounded)',
            're.compile keeps the text it is given as .pattern; FragmentsOfRegexps.__init__(*args, **kargs) is proved for empty *args / **kargs only (the one construction in the library, an obligation at that call site): forwarding of non-empty extra arguments is outside the python subset'],
        assumptions=['BOUNDED stand-in (not proof): Bits.pack_regexp is string manipulation over "0", "1", "x" outside the VC generator - decided by exhaustive native evaluation over all 3^8 '
                     'per-byte patterns x 256 bytes (eight one-bit fields) plus seeded multi-width runs',
                     'BOUNDED: the composition - the regions consumed by the fields of a flat declaration concatenate to a prefix of the input and the assembled expression is the '
                     'concatenation of the pieces (assemble_regexp fold, proved) so the prefix is in its language - is argued in DESIGN.md 4.C18, not mechanised; checked end to end by '
                     'seeded random declarations, patterns and corpora (filter with == filter without pre-filter)',
                     'flat declarations over Int, Data, Bits as in the statement: Sequence / Optional / Ref pack_regexp and positioned fields (holes) are not under contract',
                     'Data sized by a callback: the piece is pinned only for constant and field sizes; regex delimiters not kept in the value are excluded by the statement'],
    ),
    'C16': dict(
        level='proof',
        functions=['C16#codegen:CodeGenerator.generate_code'],
        native_probe='env_probe16',
        trusted_base=['ASSUMED environment contracts (pyvc/envmodel.py) as for C15, plus: os.replace is atomic (the target has the whole content and the stamp of the source), '
                      'tempfile.NamedTemporaryFile creates a new file under a name nobody else uses; cross-checked natively on every run (bounded)',
                      'rely/guarantee soundness: the guarantee of every step of this function (the crash-point obligations: the cache invariant holds after each '
                      'file-system operation) is the rely assumed about the other processes, which run the same code'],
        assumptions=['PARTIAL FUNCTION: as C15 (tail of CodeGenerator.generate_code)',
                     'CRASH POINTS: the process may die after any operation on the file system; a crash in the middle of one write() leaves some prefix of the chunk in a '
                     'file that is already not honest at the preceding crash point unless it is a temporary file (so byte-level crash points are covered by the operation-level ones)',
                     'CONCURRENCY is over-approximated by a rely condition (no interleaving is enumerated): before every environment operation other processes may replace any '
                     'module file by a complete module of any declaration, remove or write bytecode, change stamps; they never delete a module file and never touch this process\' temporary file; '
                     'threads of one process sharing sys.modules are outside the statement (processes)',
                     'initial state: HonestCache + ModulesOK as for C15 (every module file was written completely by this code for some declaration, or is blank); a crashed run of the CURRENT code leaves such a state (that is the crash-point obligation); torn files left by the in-place writer of earlier versions are outside it',
                     'the pack_impl / unpack_impl attributes of a packet class are plain functions; file-system operations other than the modelled failures succeed'],
        explanation='per-call contract with crash-point obligations (invariant after every file-system operation) and rely havoc before every operation; '
                    'post: the class gets the code of its own declaration or keeps the generic drivers, and the definition does not fail',
    ),
    'C15': dict(
        level='proof',
        functions=['codegen:CodeGenerator.generate_code'],
        native_probe='env_probe',
        trusted_base=['ASSUMED environment contracts (pyvc/envmodel.py): os.path.exists / os.remove / os.makedirs / open(w) / write / SourceFileLoader.load_module '
                      '(bytecode reused iff its recorded (mtime, size) stamp equals the source stamp; a module already in sys.modules is re-executed in place, '
                      'names defined earlier survive; __cached__) / hashlib.sha1 collision-free / path and formatting functions deterministic; '
                      'cross-checked natively on every run by pyvc/env_probe.py part A (bounded)',
                      'what executing a generated module text defines (cookie, pack_impl iff pack code, unpack_impl iff unpack code) - assumed about the text '
                      'produced by the dropped prefix; the behaviour of those functions is C03'],
        assumptions=['PARTIAL FUNCTION: only the tail of CodeGenerator.generate_code after the last assignment of unpack_code is under contract (cut mechanically '
                     'on every run); the prefix that builds pack_code / unpack_code / import_code is dropped and replaced by the syntactic prefix-shape obligations',
                     'HonestCache: every file and cached bytecode under __pkts__ was written by an earlier completed run of this function (for any declaration) '
                     'or is blank (imports, defines none of cookie / pack_impl / unpack_impl: an empty file, a module that carries no cookie); every module object '
                     'already in sys.modules satisfies NSInv (its cookie, if any, is the cookie of the code its functions were generated from) - both are inductive '
                     'invariants (postconditions); torn or concurrently modified files are the subject of C16',
                     'the pack_impl / unpack_impl attributes of a packet class are plain functions',
                     'the two generated code strings are self-delimiting (the hash of their concatenation determines both)',
                     'file-system operations succeed (writable cache directory); other processes running concurrently are C16'],
        explanation='per-call contract with an inductive invariant over the cache state: histories of definitions are covered by quantifying over all HonestCache states',
    ),
    'C09': dict(
        level='proof',
        functions=['deferred:_defer_method.<lambda#0>', 'deferred:_defer_method.<lambda#1>', 'deferred:_defer_method.<lambda#2>',
                   'deferred:if_true_then_else', 'deferred:exec_compiled_expr'],
        bounded=['deferred:compile_expr_into_callable'],
        trusted_base=_COMMON_TRUST + ['operator callables (operator.add, ...) are opaque pure functions of their operands'],
        assumptions=['BOUNDED stand-in (not proof): that compile_expr emits code whose evaluation by exec_compiled_expr equals the eager python expression '
                     '(operand order included) is checked by the run-time twin on seeded random expression trees of depth <= 3 over the operator set, '
                     'compared against the same recipe applied eagerly to the values; compile_expr (recursive, closure-building) and _defer_operations_of '
                     '(method-name table) are outside the VC generator in this round',
                     'chained comparisons / and / or / not cannot be deferred by operator overloading (outside the operator set)'],
    ),
    'C13': dict(
        level='proof',
        functions=_FRAME_FUNCS,
        trusted_base=_COMMON_TRUST + ['role contracts: user callables and Ref selectors are pure and return fresh objects',
                                      'copy.deepcopy / pickle round trip return fresh object graphs'],
        assumptions=['thread schedules are NOT explored: non-interference of operations on distinct packets follows from the proved frames '
                     '(disjoint write footprints, shared field objects only read) - the footprint argument of DESIGN.md 4.C13',
                     'deferred-expression callables are outside the functions under contract here (C09 covers exec_compiled_expr)',
                     'WFClass: slot sets of distinct fields are disjoint'],
        explanation='frames and freshness: every frame obligation of every pack/unpack/init function under contract',
    ),
    'C04': dict(
        level='proof',
        functions=['field:Int._unpack_fixed_and_primitive_size', 'field:Int._unpack_fixed_size',
                   'field:Data._unpack_fixed_size', 'field:Data._unpack_variable_size_field',
                   'field:Data._unpack_variable_size_callable', 'field:Data._unpack_with_string_marker',
                   'field:Data._unpack_with_regexp_marker', 'field:Bits.unpack',
                   'structural_fields:Sequence.unpack', 'structural_fields:Optional.unpack',
                   'packet:Packet.unpack_impl', 'packet:Packet.unpack'],
        lemmas=['C04.truncation'],
        trusted_base=_COMMON_TRUST + ['abstract field contract for composite declarations'],
        assumptions=['offset >= 0', 'assert statements are live (no python -O): the missing-delimiter checks are asserts',
                     'generated unpack code is covered by C03'],
    ),
    'C07': dict(
        level='proof',
        native_probe='probe_builder',
        functions=['field:Bits.unpack', 'field:Bits.pack', 'field:Bits.__init__', 'field:Bits._compile', 'field:Bits.init',
                   'field:Int.__init__', 'field:Int._compile', 'ghost_clients:bits_compile_establishes_wf',
                   # the run's bytes are read and emitted through the shared Int: its four bodies carry the byte-level half of the statement
                   'field:Int._unpack_fixed_and_primitive_size', 'field:Int._unpack_fixed_size',
                   'field:Int._pack_fixed_and_primitive_size', 'field:Int._pack_fixed_size'],
        lemmas=['C07.unpack_slice', 'C07.pack_merge'],
        trusted_base=_COMMON_TRUST + ['mask-shaped facts A1-A3 about & | ~ on unbounded python ints and << >> as multiplication / floor division by 2^s (assumed, cross-checked against CPython, bounded)',
                                      'product law of 2**n'],
        assumptions=['BitsWF is established by Bits._compile (proved: lemma client bits_compile_establishes_wf) except for its last conjunct - the generated slot name "_bits__<names>" of the shared integer differs from the member names (string formatting, assumed)',
                     'FieldsWF (assumed at class construction): the entries of the field list are distinct, allocated Field objects and Bits entries are not compiled twice (exec_once)',
                     'offset >= 0'],
    ),
    'C17': dict(
        level='proof',
        native_probe='probe_builder',
        functions=['descriptor:Auto._compile', 'descriptor:Auto.__get__', 'descriptor:Auto.__set__',
                   'descriptor:Auto.__delete__', 'descriptor:Auto.sync_before_pack',
                   'descriptor:AutoLength.calculate_length', 'packet:Packet.__init__',
                   # the naming scheme that links a described field to its hidden slot and tells the descriptor both names
                   'field:Field._describe_yourself',
                   # the hooks a class runs: the bound methods of the descriptors of its own fields, one per field, in table order
                   'packet_builder:PacketClassBuilder.collect_sync_methods_from_field_descriptors',
                   # every packet runs its own hooks in its own pack_impl / unpack_impl (so nested packets do too): hook-count clauses
                   'packet:Packet.pack_impl', 'packet:Packet.unpack_impl'],
        lemmas=['C17.visible_depends_only_on_flag_and_hidden'],
        trusted_base=_COMMON_TRUST + ["python's descriptor protocol dispatches attribute get/set/delete of a described field to Auto.__get__/__set__/__delete__ (role:DESC.__set__)"],
        assumptions=['the computing function (Auto.func) is pure and does not read the hidden slot',
                     'WFClass: descriptor flag/hidden slot names of distinct fields are distinct and not owned by other fields',
                     'generated code is covered by C03'],
    ),
    'C19': dict(
        level='proof',
        functions=['field:Field.__init__', 'field:Field.init', 'field:Int.init', 'field:Data.init', 'field:Data.__init__',
                   'structural_fields:Sequence.init', 'structural_fields:Optional.init', 'packet:Packet.__init__',
                   'packet:Prototype.__init__', 'packet:Prototype._clone_from_pickle', 'packet:Prototype._clone_from_live_obj',
                   'field:Ref.init', 'field:Ref._lets_find_a_nice_default', 'field:Bits.init',
                   'structural_fields:Sequence.__init__', 'structural_fields:Optional.__init__'],
        trusted_base=_COMMON_TRUST + ['copy.deepcopy returns a fresh object graph for non-primitive values',
                                      'pickle.loads(pickle.dumps(x)) is a fresh object graph sharing nothing mutable with x'],
        assumptions=['embed=True is excluded (documented as experimental)',
                     'Ref.__init__ (choice of the default of a reference) is NOT under contract'],
    ),
    'C08': dict(
        level='proof',
        functions=['structural_fields:Sequence.unpack', 'structural_fields:Sequence.pack',
                   'structural_fields:Optional.unpack', 'structural_fields:Optional.pack',
                   'field:Ref._unpack_referencing_a_packet', 'field:Ref._pack_referencing_a_packet',
                   'field:Ref._unpack_using_callable', 'field:Ref._pack_with_callable',
                   'structural_fields:Optional._compile', 'structural_fields:Sequence._compile',
                   'structural_fields:normalize_raw_condition_into_a_callable',
                   'structural_fields:normalize_count_condition_into_a_callable'],
        bounded=['C08twin#structural_fields:normalize_raw_condition_into_a_callable'],
        trusted_base=_COMMON_TRUST + ['abstract field contract role:FIELD.unpack / role:FIELD.pack for the element field (writes only the slots it owns)',
                                      'role contracts of user callbacks (count / when / until): pure, deterministic, do not raise PacketError'],
        assumptions=['slot sets of distinct fields of one packet are disjoint (WFClass, assumed)',
                     "the buffer's internal list is never a packet value",
                     'Ref with a run-time selector: the selector is a role contract (pure, deterministic); its body writes into the Field object the selector '
                     'returns (finding F3: frame wider than the abstract field contract); the field->expression conversion is NOT under contract'],
    ),
    'C12': dict(
        level='proof',
        functions=['packet:PacketError.__init__', 'packet:PacketError.add_parent_field_and_packet', 'packet:PacketError.__str__',
                   'packet:Packet.unpack_impl', 'packet:Packet.pack_impl', 'packet:Packet.unpack', 'packet:Packet.pack'],
        trusted_base=_COMMON_TRUST + ['abstract field contract role:FIELD.unpack / role:FIELD.pack (any field may raise any exception; a nested PacketError carries a well-formed stack)'],
        assumptions=['WFClass: get_fields() is the compiled field table (metaclass pipeline not under contract)',
                     'offset >= 0', 'generated pack_impl/unpack_impl replacements are covered by C03, not here'],
    ),
    'C20': dict(
        level='proof',
        functions=['packet:Packet.__eq__', 'packet:Packet.__repr__',
                   # positioning pseudo-fields never write a slot: their placeholder entries stay unset and are skipped by ==
                   'structural_fields:Move.unpack', 'structural_fields:Move.pack', 'structural_fields:Move.init'],
        trusted_base=_COMMON_TRUST,
        assumptions=["value comparison `!=` of two field values is total (does not raise) and is the negation of `==`",
                     "__ne__ is python's default negation of __eq__ (Packet defines no __ne__)"],
    ),
    'C06': dict(
        level='proof',
        # a byte string that is the element of a repeated / optional field is compiled with the class options (search window, defaults)
        functions=_DATA_FUNCS + ['structural_fields:Sequence._compile', 'structural_fields:Optional._compile'],
        lemmas=['bytes.slice_of_slice'],
        trusted_base=_COMMON_TRUST,
        assumptions=['offset >= 0', 'a bytes marker is non-empty', 'size callbacks are pure (role contract)',
                     're.search returns the leftmost match (opaque pattern semantics)'],
    ),
    'C05': dict(
        level='proof',
        functions=_INT_FUNCS,
        trusted_base=_COMMON_TRUST,
        assumptions=['offset >= 0', 'values of unknown user classes are opaque non-integers (duck typing is outside the value model)'],
    ),
    'C10': dict(
        level='proof',
        native_probe='probe_builder',
        functions=['structural_fields:Move.unpack', 'structural_fields:Move.pack',
                   # per-element alignment of repeated fields (call assertions) and the fill of skipped bytes
                   'structural_fields:Sequence.unpack', 'structural_fields:Sequence.pack',
                   'fragments:Fragments.insert', 'fragments:Fragments.tobytes',
                   # the reference point of relative positions: every field runs with innermost-pkt-pos = start of ITS packet
                   'packet:Packet.unpack_impl', 'packet:Packet.pack_impl',
                   # the reference point "start of the data": the entry points hand buffer / offset on unchanged (no re-basing)
                   'packet:Packet.unpack', 'packet:Packet.pack',
                   # how .at() / .shift() / .aligned() / the class-wide align option become Move pseudo-fields of the table
                   'field:Field.at', 'field:Field.shift', 'field:Field.aligned', 'structural_fields:Move.__init__',
                   'field:Field._describe_yourself', 'structural_fields:Sequence._compile'],
        lemmas=['C10.move_target_unique'],
        trusted_base=_COMMON_TRUST,
        assumptions=['move targets are integers; alignment values are > 0 (precondition, outside the statement otherwise)',
                     'callable targets are pure and return the same value when parsing and serialising (role contract)'],
    ),
    'C11': dict(
        level='proof',
        functions=['fragments:Fragments.__init__', 'fragments:Fragments.insert', 'fragments:Fragments.append',
                   'fragments:Fragments.tobytes'],
        trusted_base=_COMMON_TRUST,
        assumptions=['positions handed to Fragments are >= 0; len(fill) == 1'],
    ),
}

MANIFEST_TEXT = {
    'C01': dict(
        text='Proof, per field kind and without bound on inputs, of the round-trip lemma over the proved contracts: unpack followed by pack of the same field appends exactly the consumed bytes raw[offset:end] '
             'at the cursor (Int both paths, Data constant/field/callable/bytes-delimited/regex-kept/read-to-end, a Bits member leaves the shared integer as parsed so the run is re-emitted); positioning moves the '
             'cursor to the same position relative to the start of the parse and stores nothing (holes -> fill byte by C11); structural fields, drivers and the buffer satisfy their contracts (C08, C12, C11).',
        note='The composition over an arbitrary field table is an induction argument over the abstract field contract, not mechanised (stated in the evidence). Known finding K1a: reference=\'begins\' with a non-zero start offset.'),
    'C02': dict(
        text='Proof, per leaf kind and without bound on values, of the serialise-then-parse lemma over the proved contracts: for a value that satisfies the declaration (integer in range, fixed byte string of exactly n bytes) '
             'pack followed by unpack on any input carrying the emitted bytes yields the same value and ends exactly after them; the bytes emitted are the field\'s encoding appended at the cursor (C05/C06 contracts), placed by C10/C11.',
        note='Composition over the field table is not mechanised; delimited Data, sequences, optionals and nested packets are covered by their C06/C08 contracts only.'),
    'C14': dict(
        text='Proof, per leaf kind and for arbitrary prefixes and suffixes, of the locality lemma over the proved contracts: parsing the field inside prefix ++ raw ++ suffix at |prefix| + offset yields the same value and an end offset '
             'shifted by exactly |prefix| (Int both paths, fixed Data); relative positioning depends only on offset and innermost-packet position (Move contract); delimited fields search only at or after the cursor inside the window (C06 contract).',
        note='Composition over the field table is not mechanised; no embedded-parse lemma for delimited Data yet (read-to-end and lengthening regex matches are excluded by the statement anyway).'),
    'C03': dict(
        text='Translation validation, unbounded over inputs and packet values, enumerated over declarations: for every declaration of the family and option set the real builder is run, '
             'and the generated pack_impl/unpack_impl (real, loop-free code) is proved equivalent to the real generic field loop unrolled over the same concrete field table: every pair of paths '
             'that can be taken on the same input agrees (same offset and packet heap / same cursor and byte view; both PacketError with the same phase; never one failing and the other not). '
             'Entries that are not fixed struct fields are deterministic uninterpreted state transformers, so the proof does not depend on their kind.',
        note='Declarations are enumerated (quick: all of length 1, seeded samples of length 2 and 3, default + one seeded option set; thorough: all length <= 2, larger samples, all 16 option sets). '
             'Assumes struct multi-code format semantics, Fragments == its C11 contract, well-typed fixed Data values, no stored byte at/after the cursor. The generator itself is not verified, its outputs are. '
             'On failure class, phase and the stack of (offset, name, class) entries of the PacketError are compared; the newest entry may name the run of fixed fields "between A and B" that contains the failing field, with the offset where A begins; the message text is not compared.',
        technique='translation validation by relational symbolic execution of the real generated code against the real generic loop (VCs from python ast, z3/cvc5)'),
    'C09': dict(
        text='Proof (unbounded) of the local contracts: the methods installed on fields and expressions build nodes with the operands in the order of the python data model '
             '(forward op(self, other), reflected op(other, self)); if_true_then_else selects exactly as the eager conditional expression for every condition value and both branches '
             '(falsy values included); exec_compiled_expr evaluates on a private copy of the operand stack and writes nothing else (no state shared between evaluations). '
             'BOUNDED stand-in, labelled as such: the end-to-end meaning (compile_expr + exec_compiled_expr == eager python expression, same exceptions) is checked by the run-time twin on seeded random trees.',
        note='compile_expr and _defer_operations_of are not under contract (recursive closure-building code outside the VC generator); the bounded twin is not counted in obligations/discharged.'),
    'C15': dict(
        text='Proof, for every state of the cache directory, of the bytecode cache and of sys.modules that a history of completed earlier definitions (of any same-named '
             'classes, any options, in this or earlier processes, same size and timestamp included, bytecode caching on or off) can leave behind: the real tail of '
             'CodeGenerator.generate_code (cookie, lookup, stale-bytecode removal, rewrite, reload, install) raises nothing, installs for each direction that is switched on '
             'and not overridden exactly the function defined by the code generated now, installs nothing for a direction that is off, and leaves the cache in a state of '
             'the same kind (inductive invariant) - so a module cached for another declaration is never used and reuse of a matching module changes nothing.',
        note='The operating system and the import system are ASSUMED contracts over ghost state (file contents as free terms, (mtime,size) stamps that may coincide, '
             'bytecode reuse by stamp, re-execution into an existing module namespace, collision-free sha1), cross-checked natively on every run (bounded probe, which also '
             'replays definition histories on the real builder and gives concrete failing histories). Only the tail of the function is under contract (partial function, cut '
             'mechanically); torn / foreign files, crashes and concurrent processes are C16.',
        technique='contract-based deductive verification of the real function tail (VCs from the python ast, z3/cvc5) under assumed environment contracts; bounded native probe as cross-check'),
    'C16': dict(
        text='Proof in a rely/guarantee formulation over the same environment contracts as C15: (crash) after EVERY file-system operation of the real tail of '
             'CodeGenerator.generate_code the cache invariant holds - no module name ever designates a partially written file (the module is written to a temporary file and '
             'moved into place atomically) - so a fresh process after any crash point is in the situation proved for C15; (concurrency) with the file system havoced before every '
             'operation within what other processes running the same code can do, the definition raises nothing and the class ends up with the function generated for ITS OWN '
             'declaration or keeps the generic drivers (never code of another declaration, never a truncated module).',
        note='Interleavings and crash points are not enumerated: crash points are obligations at every environment operation, schedules are over-approximated by rely havoc. '
             'Three genuine defects were found by these obligations on the pinned tree, reproduced natively (crash replay at byte granularity, single interleavings) and repaired in /repo '
             '(fix: 9d79700 atomic write, a99f3c4 cookie re-check after reload, b35af89 tolerant bytecode removal); the native replays run on every check (bounded). '
             'Environment contracts are assumed (cross-checked natively); threads sharing one sys.modules are outside the statement.',
        technique='contract-based deductive verification of the real function tail with crash-point invariant obligations and rely/guarantee interference (VCs from the python ast, z3/cvc5) under assumed environment contracts; bounded native crash / interleaving replay as cross-check'),
    'C18': dict(
        text='Proof, piece by piece: (1) the real Int.pack_regexp / Data.pack_regexp bodies append exactly one piece per field - for a fixed value the escaped bytes their pack() emits '
             '(the pack bodies are re-verified for a regexp buffer), for Any() ".{n}" (n the declared width, the constant size or the value of the size field), ".*" when the size is not known, '
             '".*" + the escaped delimiter for delimited byte strings - and never fail for a placeholder; (2) FragmentsOfRegexps.__init__ builds an empty well-formed buffer (proved for the argument-less construction the library uses), insert/append keep one regexp text per stored chunk, '
             'assemble_regexp is the left fold of the pieces in position order (loop invariant), as_regular_expression compiles "(?s)" + that fold over a buffer every table entry contributed to in order; '
             '(3) lemmas: the region of the input a field consumes when it decodes to the pattern value (contracts C05/C06) is in the language of its piece.',
        note='The denotation of the piece shapes is assumed (cross-checked against re, bounded). Bits.pack_regexp and the composition over all fields are bounded stand-ins: exhaustive per-byte evaluation '
             '(3^8 patterns x 256 bytes) and seeded end-to-end filter() comparisons run on every check and give concrete failing inputs. Findings: one defect fixed in /repo (14eb703, Any-sized data broke '
             'anything_like), two recorded: K18a (consume_delimiter=False: the delimiter is matched twice) and K18b (constrained Any placeholders compare by unanchored search).',
        technique='contract-based deductive verification of the real pack_regexp / buffer bodies (VCs from the python ast, z3/cvc5) + pure lemmas over an assumed regex denotation; bounded native stand-ins for Bits.pack_regexp and the end-to-end composition'),
    'C13': dict(
        text='Proof of the frame (modifies) clause and the freshness clauses of every pack / unpack / init function under contract: each writes only slots of its own packet argument, freshly allocated objects '
             'and (pack) the fragments argument; shared field objects are not written after compilation; objects stored into slots are fresh or immutable or supplied by the caller; pack leaves every field value unchanged. '
             'Independence across packets and threads then follows from disjoint footprints (argument, not exploration).',
        note='Schedules are not executed. Known findings: K13a (regex-delimited Data writes the shared field object while parsing), K13c (pack rewrites the hidden slot of a described field, observable through ==), K13b (a Ref with a run-time selector renames the Field object the selector hands out on every parse: shared objects race). '
             'The prototype of a reference is a snapshot (pickle or deep copy), never the live declaration object; each clone is deeply fresh. Not under contract: Bits._compile/init.'),
    'C04': dict(
        text='Proof for every value-bearing leaf kind (Int both code paths, Data all five modes, Bits runs of any width) and any input: a normal exit implies the value was decoded '
             'from exactly the declared number of bytes, all inside the input (delimiters inside input and search window); a short slice, negative size or missing delimiter has no normal exit; '
             'repeated/optional fields stop only as their conditions say (never because the input ended); Packet.unpack turns every failure into PacketError or None (silent). '
             'The truncation clause follows as a lemma: cutting the input inside a field makes the slice short.',
        note='Lifting to whole declarations goes through the abstract field contract of the packet drivers (C12); generated code through C03. The defect F1 (arbitrary-width Int decoded from a short slice) '
             'was found by this contract and repaired in /repo (fix: 761fcdc).'),
    'C07': dict(
        text='Proof in three layers, for every width, shift and value without bound: (1) the real Bits.unpack / Bits.pack bodies compute (I & mask) >> shift and '
             '((v << shift) & mask) | (I & ~mask) on the shared big-endian unsigned integer, read / emit the run only in the first / last member (VCs from the code); '
             '(2) lemmas of pure integer arithmetic: the first is exactly the member\'s own slice; the second sets the own slice to v mod 2^w for any integer v and leaves every lower and higher disjoint slice untouched.'
             ' (3) the real Bits._compile lays every run out MSB first: member j of the run gets shift = sum of the widths after it and mask = (2^w - 1) << shift, all members share one fresh big-endian unsigned Int of total/8 bytes '
             '(whatever the class-level byte order), a total that is not a multiple of 8 raises ByteBoundaryError, and a run ends at every non-bit field (loop invariant over the reversed field list); '
             'a lemma client shows this state is the BitsWF precondition of unpack / pack.',
        note='The mask-shaped facts about python\'s bit operators on unbounded ints are assumed (cross-checked, bounded). exec_once and the field list handed to _compile by the class builder are assumed (FieldsWF).'),
    'C17': dict(
        text='Proof of the per-operation contracts from which every history follows by induction: with visible = computed value while the enabled flag is unset/true, '
             'hidden value otherwise - __get__ returns visible; __set__(v) makes visible == v (independent of the tracked field); __delete__ re-enables the computed value; '
             'the constructor keyword of a described field acts exactly like __set__ (0 and other falsy values included); sync_before_pack stores visible into the hidden slot that pack serialises '
             'and does not change the flag; pack_impl runs the sync hooks before the fields; the flag lives in a declared slot.',
        note="Python's descriptor dispatch and the naming scheme linking a described field to its flag/hidden slots are assumed (role contract); Auto.func is a pure role callable. "
             'Both code paths: generic pack_impl here, generated code through C03.'),
    'C19': dict(
        text='Proof for the leaf kinds and the constructor driver: after init each field slot holds the keyword argument if named, else the declared default '
             '(Int/Data/Bits-like: the default object; containers and packets: a deep copy, i.e. a fresh object never shared); Data.__init__ computes NUL bytes of the declared '
             'size for fixed byte strings without default and keeps the given default otherwise; Sequence/Optional init their own slot and the element scratch slot only; '
             'a reference defaults to a clone of its prototype, which is a snapshot taken at declaration time and cloned deeply (nothing mutable shared with the declaration or other packets).',
        note='Ref.__init__ is not under contract (listed in the evidence); copy.deepcopy and the pickle round trip are assumed contracts; embed=True excluded.'),
    'C08': dict(
        text='Proof for any element field (abstract field contract), any input and list length: the real bodies of Sequence.unpack/pack, Optional.unpack/pack and '
             'Ref (packet prototype) satisfy the control clauses of the statement - max(count,0) elements; until: >= 1 element and the loop stops exactly when the '
             'condition (evaluated after each element) is true; false when / count <= 0: empty list, nothing consumed; optional parsed iff its condition, None otherwise, '
             'absent optional emits nothing, a present one (0 and b\'\' included) is emitted; a reference stores a fresh instance of the prototype class and parses it in place; '
             'every element is parsed / emitted at the least aligned position; the normalisers map constant, field and callable counts to callables with the same value.',
        note='Callbacks are role contracts (pure); ghost variables record what each callback returned in the execution. The '
             'field-to-boolean-expression conversion is not under contract (stated in the evidence); expression counts rely on C09.'),
    'C06': dict(
        text='Proof for all inputs, offsets, sizes, marker strings and search windows: each of the five real Data unpack bodies takes exactly the declared '
             'number of bytes (constant / field / callable or compiled expression) or stops at the first occurrence of the marker inside the window '
             '(bytes marker: least match position, proved with the slice-shift lemma; regex marker: the match re.search returns), value and cursor as '
             'declared; short read, negative size, missing delimiter raise; Data.pack re-emits value + excluded literal delimiter.',
        note='bytes.find and re.search are assumed builtin contracts (find cross-checked against CPython, bounded); regex patterns are opaque; a bytes marker is non-empty; offset >= 0. '
             'Expressions given as sizes reach Data as compiled callables (C09).'),
    'C12': dict(
        text='Proof for an arbitrary field table (abstract field contract: any entry may raise anything): Packet.unpack_impl / pack_impl / unpack / pack '
             'let only PacketError escape (ValueError for non-bytes input), with the right phase flag, an entry naming the failing field, the class and the '
             'offset where the field begins, one appended entry per enclosing packet; silent=True returns None on every failure; PacketError.__str__ has no exceptional path.',
        note='The field table (get_fields) and its well-formedness are assumed (metaclass pipeline not under contract). Generated pack_impl/unpack_impl are C03. '
             'Known findings K12a (sync hooks outside the try block) and K12b (pack-phase offset of a field that moved the cursor) are carved out; residual obligations are proved.'),
    'C20': dict(
        text='Proof for an arbitrary field table and arbitrary slot contents: Packet.__eq__ returns True exactly when other is an instance of the class and every '
             'table entry compares equal (entries without a value count as absent), and neither __eq__ nor __repr__ has an exceptional path.',
        note='Python value comparison of two field values is an uninterpreted total relation (reflexive on identical values, structural on primitives); '
             '__ne__ is the default negation. The defect K20 (AttributeError for positioned/aligned/Em fields) was repaired in /repo (fix: 747be9b).'),
    'C05': dict(
        text='Proof for all widths n >= 1, both signedness settings, all endianness spellings and the class default, all byte strings and all '
             'values: Int._compile selects byte order, struct code and code path as the statement demands; each of the four real pack/unpack '
             'bodies decodes exactly n bytes to val(bytes, order, sign) and encodes exactly the representable integers to the n bytes that decode '
             'back, raising (never wrapping/truncating/padding) otherwise.',
        note='The meaning of int.from_bytes/to_bytes and of single-code struct formats is an assumed builtin contract (cross-checked against CPython, bounded). '
             'offset >= 0. PacketError wrapping of the raised exception is the C12 contract of the packet drivers. Vectorised struct formats of generated code belong to C03.'),
    'C10': dict(
        text='Proof, for all offsets, targets, alignments, reference points and nesting positions: the real bodies of Move.unpack and Move.pack '
             'satisfy the positioning clauses of the statement (exact target relative to the reference point; least advance < alignment making the '
             'position a multiple), Move.pack changes only the cursor (skipped bytes stay holes), and the clauses determine the position uniquely '
             '(lemma), so parsing and serialising agree.',
        note='Assumes integer targets, alignment > 0, offset >= 0 and pure callable targets (role contract); builtin int arithmetic is exact. '
             'Per-element alignment of Sequence and the class-wide align option are covered through the Sequence / _describe_yourself contracts when listed in the evidence.'),
    'C11': dict(
        text='Proof for all histories by data-structure invariant: every public operation of Fragments (constructor, insert, append, tobytes) '
             'is verified against a whole-view contract (raises exactly when a byte is occupied, stores exactly the chunk, nothing else changes, '
             'tobytes renders every stored byte, fill in holes, length = largest end) and preserves the representation invariant.',
        note='Assumes positions >= 0 and a one-byte fill; bisect/sorted/dict/list/bytes.join semantics are assumed builtin contracts. '
             'Known finding K11 (spurious collision against an empty chunk) is carved out by its case predicate; the residual obligation is proved.'),
}

NOT_APPLICABLE = {
}
for _i in ['C%02d' % k for k in range(1, 21)]:
    NOT_APPLICABLE.setdefault(_i, 'not brought under contract in this round; no claim is made')
