"""Contracts for bisturi/deferred.py (C09)."""
from pyvc.symex import Contract, LoopSpec
from pyvc.specev import define

CONTRACTS = {}


def add(c):
    CONTRACTS[c.name] = c
    return c


# namedtuple constructors (immutable records)
add(Contract('role:BinaryExpr.__init__', role=True,
             params={'self': 'ref:BinaryExpr', 'left': 'dyn', 'right': 'dyn', 'op': 'dyn'},
             ensures=["same(self.left, left) and same(self.right, right) and same(self.op, op)"],
             modifies=['self.*']))
add(Contract('role:UnaryExpr.__init__', role=True,
             params={'self': 'ref:UnaryExpr', 'arg': 'dyn', 'op': 'dyn'},
             ensures=["same(self.arg, arg) and same(self.op, op)"], modifies=['self.*']))

# ---- the methods installed by _defer_method: the node records the operands in the order the python
# data model prescribes: forward `A op B` -> op(A, B); reflected (`B op A` dispatched to A.__rop__) -> op(B, A)
add(Contract('deferred:_defer_method.<lambda#0>',
             params={'A': 'dyn', 'B': 'dyn'}, closure={'op': 'dyn'},
             ensures=["fresh_since(result)", "same(result.left, B) and same(result.right, A) and same(result.op, op)"],
             modifies=[], allocates=True, returns='new:BinaryExpr'))
add(Contract('deferred:_defer_method.<lambda#1>',
             params={'A': 'dyn', 'B': 'dyn'}, closure={'op': 'dyn'},
             ensures=["fresh_since(result)", "same(result.left, A) and same(result.right, B) and same(result.op, op)"],
             modifies=[], allocates=True, returns='new:BinaryExpr'))
add(Contract('deferred:_defer_method.<lambda#2>',
             params={'A': 'dyn'}, closure={'op': 'dyn'},
             ensures=["fresh_since(result)", "same(result.arg, A) and same(result.op, op)"],
             modifies=[], allocates=True, returns='new:UnaryExpr'))

# ---- the two n-ary selectors mean what the eager python expression means
add(Contract('deferred:if_true_then_else',
             params={'condition': 'dyn', 'possible_values': 'dyn'},
             ensures=["istuple(possible_values, 2)",
                      "same(result, ite(bool(condition), tupitem(possible_values, 2, 0), tupitem(possible_values, 2, 1)))"],
             raises={'TypeError': ["not istuple(possible_values, 2)"]},
             modifies=[], returns='dyn'))

# ---- the stack machine: spec functions SL(j) / SA(j) = operand stack (length, contents; top at index 0)
# after the first j operations, defined by the unfolding equations of one interpreter step:
#   (0, f):  push f(pkt, *vargs, **kargs)
#   (c, f):  pop the c topmost operands a_0 (top) .. a_{c-1}; push f(a_{c-1}, ..., a_0)  [oldest first]
define('stack_is(args, j)',
       "len(args) == SL(ops, args0, j) and forall(0, len(args), lambda i: same(args[i], SA(ops, args0, j, i)))")

# ---- the interpreter of compiled expressions.  Under contract here: what it may touch.  The operand
# stack is a private copy: the `args` list handed in (shared by every evaluation of one compiled
# expression, see compile_expr_into_callable) is never written, nothing else is either.
# The meaning of the evaluation (operand order, compile_expr's emitted code) is covered by the bounded
# stand-in `bounded_ensures` below, evaluated by the run-time twin on random expression trees.
add(Contract('deferred:exec_compiled_expr',
             params={'pkt': 'ref:Packet', 'args': 'list', 'ops': 'list', 'vargs': 'varargs', 'kargs': 'kw'},
             requires=["allocated(args) and allocated(ops)", "not same(args, ops)"],
             ensures=[],
             raises={'OtherException*': [], 'AssertionError': [], 'TypeError': [], 'ValueError': []},
             loops={0: LoopSpec(["0 <= it", "allocated(args)", "not same(args, ops) and not same(args, entry_args)"],
                                kinds={'arg_count': 'dyn', 'op': 'dyn', 'result': 'dyn'})},
             modifies=[], allocates=True, returns='dyn'))


# ---- BOUNDED stand-in (run-time twin only, never counted as proved): the callable produced for an
# expression tree evaluates to what the same python expression gives eagerly, and raises when it raises.
add(Contract('deferred:compile_expr_into_callable',
             params={'root_expr': 'dyn', 'ghost_pkt': 'dyn', 'ghost_expected': 'dyn'},
             ensures=["deferred_agrees(result, ghost_pkt, ghost_expected)"],
             raises={}, modifies=[], allocates=True, returns='dyn'))
CONTRACTS['deferred:compile_expr_into_callable'].twin_only = True
