"""Contracts for bisturi/structural_fields.py (Move, Sequence, Optional, normalisers)."""
from pyvc.symex import Contract, LoopSpec
from pyvc.specev import define

CONTRACTS = {}


def add(c):
    CONTRACTS[c.name] = c
    return c


# ---------------------------------------------------------------- Move (C10)
# value of the move argument when parsing / serialising
define('mv_u(self, pkt, raw, offset, k)',
       "ite(isinst(self.move_arg, 'Field'), slot(pkt, asref(self.move_arg, 'Field').field_name),"
       " ite(isint(self.move_arg), self.move_arg,"
       "     cb(self.move_arg, pkt=pkt, raw=raw, offset=offset, k=k)))")
define('mv_u_raises(self, pkt, raw, offset, k)',
       "not isinst(self.move_arg, 'Field') and not isint(self.move_arg) and"
       " cb_raises(self.move_arg, pkt=pkt, raw=raw, offset=offset, k=k)")
define('mv_p(self, pkt, fragments, k)',
       "ite(isinst(self.move_arg, 'Field'), slot(pkt, asref(self.move_arg, 'Field').field_name),"
       " ite(isint(self.move_arg), self.move_arg,"
       "     cb(self.move_arg, pkt=pkt, fragments=fragments, k=k)))")
define('mv_p_raises(self, pkt, fragments, k)',
       "not isinst(self.move_arg, 'Field') and not isint(self.move_arg) and"
       " cb_raises(self.move_arg, pkt=pkt, fragments=fragments, k=k)")
# well-formedness of a Move object (established by Field.at/shift/aligned + _describe_yourself)
define('MoveWF(self)',
       "(self.reference == 'begins' or self.reference == 'current-offset' or self.reference == 'innermost-pkt')"
       " and isbool(self.is_alignment)"
       " and (isinst(self.move_arg, 'Field') or isint(self.move_arg) or iscallable(self.move_arg))")
define('refpoint(self, cur, k)',
       "ite(self.reference == 'begins', 0, ite(self.reference == 'current-offset', cur, k.ipp))")

_move_target_posts = lambda res, cur, mv: [x % dict(res=res, cur=cur, mv=mv) for x in [
    # at / shift: exactly the target, relative to the reference point
    "implies(not bool(self.is_alignment), %(res)s - refpoint(self, %(cur)s, k) == intval(%(mv)s))",
    # aligned: least advance, less than the alignment, that makes the position a multiple
    "implies(bool(self.is_alignment), 0 <= %(res)s - %(cur)s and %(res)s - %(cur)s < intval(%(mv)s))",
    "implies(bool(self.is_alignment), pymod(%(res)s - refpoint(self, %(cur)s, k), intval(%(mv)s)) == 0)",
    "implies(bool(self.is_alignment), forall(0, %(res)s - %(cur)s, lambda a:"
    " pymod(%(cur)s + a - refpoint(self, %(cur)s, k), intval(%(mv)s)) != 0))",
]]

add(Contract(
    'structural_fields:Move.unpack',
    params={'self': 'ref:Move', 'pkt': 'ref:Packet', 'raw': 'bytes', 'offset': 'int', 'k': 'kw'},
    requires=[
        "MoveWF(self)", "k.has_ipp",
        # targets are integers (type assumption on declarations / role contract of callbacks)
        "implies(isinst(self.move_arg, 'Field'), hasslot(pkt, asref(self.move_arg, 'Field').field_name))",
        "implies(not mv_u_raises(self, pkt, raw, offset, k), isint(mv_u(self, pkt, raw, offset, k)))",
        # alignment must be positive (outside the statement otherwise)
        "implies(bool(self.is_alignment) and not mv_u_raises(self, pkt, raw, offset, k),"
        " intval(mv_u(self, pkt, raw, offset, k)) > 0)",
    ],
    ensures=_move_target_posts('result', 'offset', 'mv_u(self, pkt, raw, offset, k)') + [
        "not mv_u_raises(self, pkt, raw, offset, k)"],
    raises={'Exception*': ["mv_u_raises(self, pkt, raw, offset, k)"]},
    modifies=[], returns='int'))

add(Contract(
    'structural_fields:Move.pack',
    params={'self': 'ref:Move', 'pkt': 'ref:Packet', 'fragments': 'ref:Fragments', 'k': 'kw'},
    requires=[
        "MoveWF(self)", "k.has_ipp",
        "implies(isinst(self.move_arg, 'Field'), hasslot(pkt, asref(self.move_arg, 'Field').field_name))",
        "implies(not mv_p_raises(self, pkt, fragments, k), isint(mv_p(self, pkt, fragments, k)))",
        "implies(bool(self.is_alignment) and not mv_p_raises(self, pkt, fragments, k),"
        " intval(mv_p(self, pkt, fragments, k)) > 0)",
    ],
    ensures=_move_target_posts('fragments.current_offset', 'old(fragments.current_offset)',
                               'old(mv_p(self, pkt, fragments, k))') + [
        "not old(mv_p_raises(self, pkt, fragments, k))", "result == fragments"],
    raises={'Exception*': ["mv_p_raises(self, pkt, fragments, k)"]},
    # only the cursor moves: no byte is stored, so skipped positions stay holes ('.' by C11)
    modifies=['fragments.current_offset'], returns='ref:Fragments'))

# ---------------------------------------------------------------- Sequence / Optional (C08, C10 per-element alignment)
from . import c_fragments, c_packet  # noqa: E402,F401

FRAG_MOD = ['fragments.fragments{*}', 'fragments.begin_of_fragments[*]', 'fragments.current_offset',
            'fragments.ghost_idx{*}']

# the element field lives in its own scratch slot, distinct from the field's own slot
define('SeqWF(self)',
       "self.prototype_field.field_name == self.seq_elem_field_name"
       " and self.seq_elem_field_name != self.field_name"
       " and not owns(self.prototype_field, self.field_name)"
       " and isint(self.aligned_to) and not isbool(self.aligned_to) and intval(self.aligned_to) >= 1"
       " and (isnone(self.get_how_many_elements) != isnone(self.until_condition))"
       " and (isnone(self.get_how_many_elements) or iscallable(self.get_how_many_elements))"
       " and (isnone(self.until_condition) or iscallable(self.until_condition))"
       " and (isnone(self.when) or iscallable(self.when))")
define('SEQ(pkt, self)', "aslist(slot(pkt, self.field_name))")
# least advance (< A) that makes pos a multiple of A
define('aligned_from(pos, start, A)', "0 <= pos - start and pos - start < A and pymod(pos, A) == 0")
# the `when` guard of a repeated field skips everything: false condition, or a count <= 0
define('seq_skipped(self)',
       "not isnone(self.when) and ((g_count_called and intval(g_count) <= 0) or not (g_when_called and bool(g_when)))")

_seq_ghosts = dict(
    call_ghost={'get_how_many_elements': 'g_count', 'when': ('g_when', 'truth'), 'until_condition': ('g_until', 'truth')},
    ghost_init={'g_count': '1', 'g_count_called': 'False', 'g_when': 'False', 'g_when_called': 'False',
                'g_until': 'False', 'g_until_called': 'False', 'g_o': '0'},
    ghost_kinds={'g_count': 'dyn', 'g_count_called': 'bool', 'g_when': 'bool', 'g_when_called': 'bool',
                 'g_until': 'bool', 'g_until_called': 'bool', 'g_o': 'int'})

add(Contract(
    'structural_fields:Sequence.unpack',
    params={'self': 'ref:Sequence', 'pkt': 'ref:Packet', 'raw': 'bytes', 'offset': 'int', 'k': 'kw'},
    requires=["SeqWF(self)", "offset >= 0", "k.has_ipp"],
    ensures=[
        # a repeated field yields a (fresh) list
        "hasslot(pkt, self.field_name) and islist(slot(pkt, self.field_name)) and fresh_since(SEQ(pkt, self))",
        "result >= 0",
        # with a count: exactly max(count, 0) elements (g_count: what the count callback returned)
        "implies(not isnone(self.get_how_many_elements) and not seq_skipped(self),"
        "        g_count_called and isint(g_count) and len(SEQ(pkt, self)) == max(intval(g_count), 0))",
        # with an until-condition: one or more elements, and the condition (last evaluated on the
        # list built so far) is true when the loop stops
        "implies(isnone(self.get_how_many_elements) and not seq_skipped(self),"
        "        len(SEQ(pkt, self)) >= 1 and g_until_called and bool(g_until))",
        # a false when-condition (or a count <= 0 under a when): empty list, nothing consumed
        "implies(seq_skipped(self), len(SEQ(pkt, self)) == 0 and result == offset)",
    ],
    # failures come from the element field or from the callbacks only: the sequence itself never gives up on an input
    # (in particular not by looking at how many bytes follow, C14)
    raises={'PacketError': ["exc.was_error_found_in_unpacking_phase == True", "StackWF(exc)",
                            "fresh_since(exc) and fresh_since(exc.fields_stack)", "not g_own_raise"],
            'OtherException*': ["not g_own_raise"]},
    loops={
        0: LoopSpec(["0 <= it", "offset >= 0", "len(sequence) == it",
                     "hasslot(pkt, self.field_name) and same(slot(pkt, self.field_name), sequence)"],
                    ghost={'g_o': 'offset'}),
        1: LoopSpec(["offset >= 0", "len(sequence) >= 1",
                     "hasslot(pkt, self.field_name) and same(slot(pkt, self.field_name), sequence)",
                     # stop right after the first element for which the condition is true
                     "g_until_called and should_continue == (not bool(g_until))"],
                    ghost={'g_o': 'offset'}, ghost_havoc=['g_until']),
    },
    # every element is parsed at the least aligned position at or after the end of the previous one
    call_asserts={'FIELD.unpack': ["aligned_from(arg_offset, g_o, intval(self.aligned_to))"]},
    modifies=['slot(pkt, *)'], allocates=True, returns='int', **_seq_ghosts))

add(Contract(
    'structural_fields:Sequence.pack',
    params={'self': 'ref:Sequence', 'pkt': 'ref:Packet', 'fragments': 'ref:Fragments', 'k': 'kw'},
    requires=["SeqWF(self)", "WF(fragments)", "fragments.current_offset >= 0", "k.has_ipp",
              "hasslot(pkt, self.field_name) and islist(slot(pkt, self.field_name))",
              "allocated(SEQ(pkt, self))",
              # the buffer's internal list is owned by the buffer (never a packet value)
              "not same(SEQ(pkt, self), fragments.begin_of_fragments)"],
    ensures=["result == fragments", "WF(fragments)", "fragments.current_offset >= 0",
             # the list itself is left unchanged
             "same(slot(pkt, self.field_name), old(slot(pkt, self.field_name)))",
             "len(SEQ(pkt, self)) == old(len(SEQ(pkt, self)))",
             "forall(0, len(SEQ(pkt, self)), lambda j: same(SEQ(pkt, self)[j], old(SEQ(pkt, self)[j])))"],
    raises={'PacketError': ["WF(fragments)", "fragments.current_offset >= 0"],
            'OtherException*': ["WF(fragments)", "fragments.current_offset >= 0"]},
    loops={0: LoopSpec(["0 <= it", "WF(fragments)", "fragments.current_offset >= 0",
                        "same(slot(pkt, self.field_name), old(slot(pkt, self.field_name)))"],
                       ghost={'g_c': 'fragments.current_offset'}, kinds={'val': 'dyn'})},
    ghost_init={'g_c': '0'}, ghost_kinds={'g_c': 'int'},
    # every element is emitted at the least aligned position at or after the previous one,
    # with the element value in the scratch slot
    call_asserts={'FIELD.pack': ["aligned_from(arg_fragments.current_offset, g_c, intval(self.aligned_to))",
                                 "same(slot(pkt, self.seq_elem_field_name), SEQ(pkt, self)[it])"]},
    modifies=['slot(pkt, in:n != self.field_name)'] + FRAG_MOD, allocates=True, returns='ref:Fragments'))

define('OptWF(self)',
       "self.prototype_field.field_name == self.opt_elem_field_name"
       " and self.opt_elem_field_name != self.field_name and iscallable(self.when)"
       " and not owns(self.prototype_field, self.field_name)")

add(Contract(
    'structural_fields:Optional.unpack',
    params={'self': 'ref:Optional', 'pkt': 'ref:Packet', 'raw': 'bytes', 'offset': 'int', 'k': 'kw'},
    requires=["OptWF(self)", "offset >= 0", "k.has_ipp"],
    ensures=[
        "hasslot(pkt, self.field_name)", "g_when_called",
        # parsed iff its condition is true; otherwise None, consuming nothing
        "implies(not bool(g_when), isnone(slot(pkt, self.field_name)) and result == offset)",
        "implies(bool(g_when), g_elem_parsed)",
        "result >= 0",
    ],
    raises={'PacketError': [], 'OtherException*': []},
    call_ghost={'when': ('g_when', 'truth')},
    ghost_init={'g_when': 'False', 'g_when_called': 'False', 'g_elem_parsed': 'False'},
    ghost_kinds={'g_when': 'bool', 'g_when_called': 'bool', 'g_elem_parsed': 'bool'},
    call_asserts={'FIELD.unpack': ["bool(g_when) and arg_offset == offset"]},
    call_effects={'FIELD.unpack': {'g_elem_parsed': 'True'}},
    modifies=['slot(pkt, *)'], allocates=True, returns='int'))

add(Contract(
    'structural_fields:Optional.pack',
    params={'self': 'ref:Optional', 'pkt': 'ref:Packet', 'fragments': 'ref:Fragments', 'k': 'kw'},
    requires=["OptWF(self)", "WF(fragments)", "fragments.current_offset >= 0", "k.has_ipp",
              "hasslot(pkt, self.field_name)"],
    ensures=[
        "WF(fragments)", "fragments.current_offset >= 0",
        # an absent optional emits nothing
        "implies(isnone(old(slot(pkt, self.field_name))), unchanged(fragments) and result == fragments)",
        # a present one - whatever its value, 0 and b'' included - is emitted by the element field
        "implies(not isnone(old(slot(pkt, self.field_name))), g_elem_packed)",
        "same(slot(pkt, self.field_name), old(slot(pkt, self.field_name)))",
    ],
    raises={'PacketError': ["WF(fragments)", "fragments.current_offset >= 0"],
            'OtherException*': ["WF(fragments)", "fragments.current_offset >= 0"]},
    ghost_init={'g_elem_packed': 'False'}, ghost_kinds={'g_elem_packed': 'bool'},
    call_asserts={'FIELD.pack': ["not isnone(slot(pkt, self.field_name))",
                                 "same(slot(pkt, self.opt_elem_field_name), slot(pkt, self.field_name))"]},
    call_effects={'FIELD.pack': {'g_elem_packed': 'True'}},
    modifies=['slot(pkt, in:n != self.field_name)'] + FRAG_MOD, allocates=True, returns='dyn'))

# ---------------------------------------------------------------- normalisers (C08: every way to give a count/condition)
add(Contract(
    'role:compile_expr_into_callable', role=True,
    params={'root_expr': 'dyn'},
    ensures=["iscallable(result)"],      # its meaning is the subject of C09
    modifies=[], allocates=True, returns='dyn'))
add(Contract(
    'role:convert_a_field_raw_condition_into_a_boolean_unary_expression', role=True,
    params={'a_field': 'ref:Field'},
    ensures=["isinst(result, 'UnaryExpr')"],
    raises={'Exception': []},
    modifies=[], allocates=True, returns='dyn'))

add(Contract(
    'structural_fields:normalize_raw_condition_into_a_callable',
    params={'raw_condition': 'dyn'},
    ensures=["iscallable(result)",
             # a callable is taken as it is
             "implies(iscallable(raw_condition), same(result, raw_condition))"],
    raises={'ValueError': ["not iscallable(raw_condition)"], 'Exception': ["isinst(raw_condition, 'Field')"]},
    modifies=[], allocates=True, returns='dyn'))

add(Contract(
    'structural_fields:normalize_count_condition_into_a_callable',
    params={'count_raw_condition': 'dyn', 'ghost_pkt': 'ref:Packet', 'ghost_k': 'kw', 'ghost_raw': 'bytes', 'ghost_off': 'int'},
    ensures=[
        "iscallable(result)",
        # a callable is taken as it is
        "implies(iscallable(count_raw_condition), same(result, count_raw_condition))",
        # a constant count: the callable returns that constant
        "implies(not iscallable(count_raw_condition) and isint(count_raw_condition),"
        "        cb(result, pkt=ghost_pkt, raw=ghost_raw, offset=ghost_off, k=ghost_k) == count_raw_condition)",
        # a field: the callable returns the field's current value in the packet
        "implies(not iscallable(count_raw_condition) and not isint(count_raw_condition)"
        "        and isinst(count_raw_condition, 'Field'),"
        "        same(cb(result, pkt=ghost_pkt, raw=ghost_raw, offset=ghost_off, k=ghost_k),"
        "             slot(ghost_pkt, asref(count_raw_condition, 'Field').field_name)))",
    ],
    raises={'ValueError': ["not iscallable(count_raw_condition) and not isint(count_raw_condition)"
                           " and not isinst(count_raw_condition, 'Field')"]},
    modifies=[], allocates=True, returns='any'))

# ---------------------------------------------------------------- init (C19)
add(Contract(
    'structural_fields:Sequence.init',
    params={'self': 'ref:Sequence', 'packet': 'ref:Packet', 'defaults': 'conf'},
    requires=["not owns(self.prototype_field, self.field_name)"],
    ensures=[
        "hasslot(packet, self.field_name)",
        # the given list, or a deep copy of the declared default list (a fresh object, never shared)
        "implies(self.field_name in defaults, same(slot(packet, self.field_name), defaults[self.field_name]))",
        "implies(not (self.field_name in defaults) and islist(self.default), fresh_since(slot(packet, self.field_name)))",
        "implies(not (self.field_name in defaults) and islist(self.default),"
        "        islist(slot(packet, self.field_name)) and forall(0, len(aslist(slot(packet, self.field_name))), lambda j:"
        "           isprim(aslist(slot(packet, self.field_name))[j]) or fresh_since(aslist(slot(packet, self.field_name))[j]),"
        "           pat=lambda j: aslist(slot(packet, self.field_name))[j]))",
    ],
    raises={'OtherException*': []},
    modifies=['slot(packet, in:n == self.field_name or owns(self.prototype_field, n))'], allocates=True))

add(Contract(
    'structural_fields:Optional.init',
    params={'self': 'ref:Optional', 'packet': 'ref:Packet', 'defaults': 'conf'},
    requires=["not owns(self.prototype_field, self.field_name)"],
    ensures=[
        "hasslot(packet, self.field_name)",
        "implies(self.field_name in defaults, same(slot(packet, self.field_name), defaults[self.field_name]))",
        # None or the given default
        "implies(not (self.field_name in defaults) and isnone(self.default), isnone(slot(packet, self.field_name)))",
        # a declared default that is not immutable is copied per packet, never shared (as for every field, Field.init)
        "implies(not (self.field_name in defaults) and not (isint(self.default) or isnone(self.default) or isbytes(self.default) or isstr(self.default)),"
        "        fresh_since(slot(packet, self.field_name)))",
    ],
    raises={'OtherException*': []},
    modifies=['slot(packet, in:n == self.field_name or owns(self.prototype_field, n))'], allocates=True))

# ---------------------------------------------------------------- compile steps of the containers (C05, C08, C10)
# the wrapped element field is renamed to the scratch slot of the container and compiled WITH THE CLASS OPTIONS of the
# enclosing packet (class-default byte order, alignment): an Int inside .when(...) / .repeated(...) follows the class default
_elem_compile = ["same(arg_f, self.prototype_field)", "arg_position == -1", "sameconf(arg_bisturi_conf, bisturi_conf)"]
add(Contract(
    'structural_fields:Optional._compile',
    params={'self': 'ref:Optional', 'position': 'int', 'fields': 'list', 'bisturi_conf': 'conf'},
    requires=["hasattr_tmp(self)", "not same(self.prototype_field, self)"],
    ensures=["g_elem_compiled", "self.opt_elem_field_name == '_opt_elem__' + self.field_name",
             "self.prototype_field.field_name == self.opt_elem_field_name", "iscallable(self.when)",
             "len(result) >= 2"],
    raises={'OtherException*': []},
    call_asserts={'FIELD._compile': _elem_compile + ["arg_f.field_name == '_opt_elem__' + self.field_name"]},
    call_effects={'FIELD._compile': {'g_elem_compiled': 'True'}},
    ghost_init={'g_elem_compiled': 'False'}, ghost_kinds={'g_elem_compiled': 'bool'},
    modifies=['self.opt_elem_field_name', 'self.when', 'self.tmp', 'self.prototype_field.*'], allocates=True, returns='list'))

add(Contract(
    'structural_fields:Sequence._compile',
    params={'self': 'ref:Sequence', 'position': 'int', 'fields': 'list', 'bisturi_conf': 'conf'},
    requires=["hasattr_tmp(self)", "not same(self.prototype_field, self)", "istuple(self.tmp, 3)"],
    ensures=["g_elem_compiled", "self.seq_elem_field_name == '_seq_elem__' + self.field_name",
             "self.prototype_field.field_name == self.seq_elem_field_name",
             # the element alignment: the declared one, else the class-wide 'align' option, else 1
             "implies(not isnone(old(self.aligned_to)), same(self.aligned_to, old(self.aligned_to)))",
             "implies(isnone(old(self.aligned_to)), same(self.aligned_to, conf_get(bisturi_conf, 'align', 1)))",
             # exactly one of count / until drives the loop
             "isnone(self.get_how_many_elements) == isnone(tupitem(old(self.tmp), 3, 0))",
             "isnone(self.until_condition) == (not isnone(tupitem(old(self.tmp), 3, 0)))",
             "isnone(self.when) == isnone(tupitem(old(self.tmp), 3, 2))",
             "len(result) >= 2"],
    raises={'OtherException*': []},
    call_asserts={'FIELD._compile': _elem_compile + ["arg_f.field_name == '_seq_elem__' + self.field_name"]},
    call_effects={'FIELD._compile': {'g_elem_compiled': 'True'}},
    ghost_init={'g_elem_compiled': 'False'}, ghost_kinds={'g_elem_compiled': 'bool'},
    modifies=['self.seq_elem_field_name', 'self.when', 'self.aligned_to', 'self.get_how_many_elements', 'self.until_condition',
              'self.prototype_field.*'], allocates=True, returns='list'))

# ---------------------------------------------------------------- constructors of the containers (C19, C08)
add(Contract(
    'structural_fields:Sequence.__init__',
    params={'self': 'ref:Sequence', 'prototype': 'dyn', 'count': 'dyn', 'until': 'dyn', 'when': 'dyn', 'default': 'dyn', 'aligned': 'dyn'},
    defaults={'count': 'None', 'until': 'None', 'when': 'None', 'default': 'None', 'aligned': 'None'},
    ensures=[
        "isinst(prototype, 'Field') and same(self.prototype_field, prototype)",
        # exactly one of count / until
        "isnone(count) != isnone(until)",
        # the declared default, or a NEW empty list per declaration (never a list shared between declarations)
        "implies(not isnone(default), same(self.default, default))",
        "implies(isnone(default), islist(self.default) and len(aslist(self.default)) == 0 and fresh_since(self.default))",
        "same(self.aligned_to, aligned)", "hasattr_tmp(self) and same(self.tmp, (count, until, when))",
    ],
    raises={'AssertionError': ["not isinst(prototype, 'Field')"],
            'ValueError': ["isnone(count) == isnone(until)"]},
    modifies=['self.*'], allocates=True))

add(Contract(
    'structural_fields:Optional.__init__',
    params={'self': 'ref:Optional', 'prototype': 'dyn', 'when': 'dyn', 'default': 'dyn'},
    defaults={'default': 'None'},
    ensures=["isinst(prototype, 'Field') and same(self.prototype_field, prototype)",
             "same(self.default, default)", "hasattr_tmp(self) and same(self.tmp, when)"],
    raises={'AssertionError': ["not isinst(prototype, 'Field')"]},
    modifies=['self.*'], allocates=True))

# a positioning pseudo-field has no value: constructing a packet leaves its placeholder slot unset (so that == skips it, C20)
add(Contract(
    'structural_fields:Move.init',
    params={'self': 'ref:Move', 'packet': 'ref:Packet', 'defaults': 'conf'},
    ensures=["hasslot(packet, self.field_name) == old(hasslot(packet, self.field_name))"], modifies=[]))


# ---- BOUNDED stand-in (run-time twin only, never counted as proved): a bare field given as a condition is converted
# (convert_a_field_raw_condition_into_a_boolean_unary_expression + compile_expr, both outside the VC generator) into a
# callable that answers the truth value of the field's current value
add(Contract('C08twin#structural_fields:normalize_raw_condition_into_a_callable',
             target='structural_fields:normalize_raw_condition_into_a_callable',
             params={'raw_condition': 'dyn', 'ghost_pkt': 'dyn', 'ghost_expected': 'dyn'},
             ensures=["truth_agrees(result, ghost_pkt, ghost_expected)"],
             raises={}, modifies=[], allocates=True, returns='dyn'))
CONTRACTS['C08twin#structural_fields:normalize_raw_condition_into_a_callable'].twin_only = True
