"""Contracts for bisturi/structural_fields.py (Move, Sequence, Optional, normalisers)."""
from pyvc.symex import Contract, LoopSpec
from pyvc.specev import define

CONTRACTS = {}


def add(c):
    CONTRACTS[c.name] = c
    return c


# ---------------------------------------------------------------- Move (C10)
# value of the move argument when parsing / serialising
define('mv_u(self, pkt, raw, offset, k)',
       "ite(isinst(self.move_arg, 'Field'), slot(pkt, asref(self.move_arg, 'Field').field_name),"
       " ite(isint(self.move_arg), self.move_arg,"
       "     cb(self.move_arg, pkt=pkt, raw=raw, offset=offset, k=k)))")
define('mv_u_raises(self, pkt, raw, offset, k)',
       "not isinst(self.move_arg, 'Field') and not isint(self.move_arg) and"
       " cb_raises(self.move_arg, pkt=pkt, raw=raw, offset=offset, k=k)")
define('mv_p(self, pkt, fragments, k)',
       "ite(isinst(self.move_arg, 'Field'), slot(pkt, asref(self.move_arg, 'Field').field_name),"
       " ite(isint(self.move_arg), self.move_arg,"
       "     cb(self.move_arg, pkt=pkt, fragments=fragments, k=k)))")
define('mv_p_raises(self, pkt, fragments, k)',
       "not isinst(self.move_arg, 'Field') and not isint(self.move_arg) and"
       " cb_raises(self.move_arg, pkt=pkt, fragments=fragments, k=k)")
# well-formedness of a Move object (established by Field.at/shift/aligned + _describe_yourself)
define('MoveWF(self)',
       "(self.reference == 'begins' or self.reference == 'current-offset' or self.reference == 'innermost-pkt')"
       " and isbool(self.is_alignment)"
       " and (isinst(self.move_arg, 'Field') or isint(self.move_arg) or iscallable(self.move_arg))")
define('refpoint(self, cur, k)',
       "ite(self.reference == 'begins', 0, ite(self.reference == 'current-offset', cur, k.ipp))")

_move_target_posts = lambda res, cur, mv: [x % dict(res=res, cur=cur, mv=mv) for x in [
    # at / shift: exactly the target, relative to the reference point
    "implies(not bool(self.is_alignment), %(res)s - refpoint(self, %(cur)s, k) == intval(%(mv)s))",
    # aligned: least advance, less than the alignment, that makes the position a multiple
    "implies(bool(self.is_alignment), 0 <= %(res)s - %(cur)s and %(res)s - %(cur)s < intval(%(mv)s))",
    "implies(bool(self.is_alignment), pymod(%(res)s - refpoint(self, %(cur)s, k), intval(%(mv)s)) == 0)",
    "implies(bool(self.is_alignment), forall(0, %(res)s - %(cur)s, lambda a:"
    " pymod(%(cur)s + a - refpoint(self, %(cur)s, k), intval(%(mv)s)) != 0))",
]]

add(Contract(
    'structural_fields:Move.unpack',
    params={'self': 'ref:Move', 'pkt': 'ref:Packet', 'raw': 'bytes', 'offset': 'int', 'k': 'kw'},
    requires=[
        "MoveWF(self)", "k.has_ipp",
        # targets are integers (type assumption on declarations / role contract of callbacks)
        "implies(isinst(self.move_arg, 'Field'), hasslot(pkt, asref(self.move_arg, 'Field').field_name))",
        "implies(not mv_u_raises(self, pkt, raw, offset, k), isint(mv_u(self, pkt, raw, offset, k)))",
        # alignment must be positive (outside the statement otherwise)
        "implies(bool(self.is_alignment) and not mv_u_raises(self, pkt, raw, offset, k),"
        " intval(mv_u(self, pkt, raw, offset, k)) > 0)",
    ],
    ensures=_move_target_posts('result', 'offset', 'mv_u(self, pkt, raw, offset, k)') + [
        "not mv_u_raises(self, pkt, raw, offset, k)"],
    raises={'Exception*': ["mv_u_raises(self, pkt, raw, offset, k)"]},
    modifies=[], returns='int'))

add(Contract(
    'structural_fields:Move.pack',
    params={'self': 'ref:Move', 'pkt': 'ref:Packet', 'fragments': 'ref:Fragments', 'k': 'kw'},
    requires=[
        "MoveWF(self)", "k.has_ipp",
        "implies(isinst(self.move_arg, 'Field'), hasslot(pkt, asref(self.move_arg, 'Field').field_name))",
        "implies(not mv_p_raises(self, pkt, fragments, k), isint(mv_p(self, pkt, fragments, k)))",
        "implies(bool(self.is_alignment) and not mv_p_raises(self, pkt, fragments, k),"
        " intval(mv_p(self, pkt, fragments, k)) > 0)",
    ],
    ensures=_move_target_posts('fragments.current_offset', 'old(fragments.current_offset)',
                               'old(mv_p(self, pkt, fragments, k))') + [
        "not old(mv_p_raises(self, pkt, fragments, k))", "result == fragments"],
    raises={'Exception*': ["mv_p_raises(self, pkt, fragments, k)"]},
    # only the cursor moves: no byte is stored, so skipped positions stay holes ('.' by C11)
    modifies=['fragments.current_offset'], returns='ref:Fragments'))
