"""C18: the regular expression derived from a pattern packet (pre-filter of pattern_matching.filter).

Every field contributes one PIECE of regular-expression text to a FragmentsOfRegexps buffer:
  * a field fixed to a concrete value: the literal bytes its pack() emits, escaped (re.escape);
  * a field left as Any(): a piece that accepts every encoding region the field can consume
    (".{n}" for n bytes, ".*" + escaped delimiter for delimited byte strings, ".*" when the size is unknown).
The contracts below pin the piece each real pack_regexp body appends (and that building it never fails);
contracts/lemmas.py (C18.*) proves from the assumed denotation of those piece shapes (lang axioms: the
language of re.escape(x) is {x}, of ".{n}" the strings of length n, of ".*" everything, of a concatenation the
concatenations - under (?s)) that the region of raw consumed by the field when it unpacks to the pattern's
value is in the language of the piece.  Assembly (pieces in position order) and the composition over all
fields are checked natively (bounded) by pyvc/probe_c18.py; Bits.pack_regexp is decided by exhaustive native
evaluation over all 3^8 per-byte patterns (bounded in the number of fields, exhaustive per byte)."""
from pyvc.symex import Contract, LoopSpec
from pyvc.specev import define
from . import c_fragments, c_field  # noqa: F401

CONTRACTS = {}


def add(c):
    CONTRACTS[c.name] = c
    return c


# the buffer keeps, for every stored chunk, the regexp text of the piece at the same position
define('RxWF(f)',
       "WF(f) and forall(lambda q: (q in f.regexp_by_position) == (q in f.fragments), pat=lambda q: q in f.regexp_by_position)")
# a piece with regexp text rx (placeholder chunk s in the byte view) is stored at position pos; nothing else changes
define('rx_stored(f, pos, s, rx)',
       "stored(f, pos, s) and pos in f.regexp_by_position and f.regexp_by_position[pos] == rx"
       " and forall(lambda q: implies(q != pos, (q in f.regexp_by_position) == old(q in f.regexp_by_position)"
       "                                        and f.regexp_by_position[q] == old(f.regexp_by_position[q])))")
define('rx_unchanged(f)',
       "unchanged(f) and forall(lambda q: (q in f.regexp_by_position) == old(q in f.regexp_by_position)"
       "                                  and f.regexp_by_position[q] == old(f.regexp_by_position[q]))")
# pieces are appended one after the other: nothing is stored at or after the cursor
define('AtEnd(f)', "forall(lambda q: implies(q in f.fragments, q + len(f.fragments[q]) <= f.current_offset), pat=lambda q: f.fragments[q])")
RX_MOD = ['self.fragments{*}', 'self.begin_of_fragments[*]', 'self.current_offset', 'self.ghost_idx{*}', 'self.regexp_by_position{*}']
RXF_MOD = [m.replace('self.', 'fragments.') for m in RX_MOD]

_ins = c_fragments.CONTRACTS['fragments:Fragments.insert']
add(Contract(
    'fragments:FragmentsOfRegexps.insert',
    params={'self': 'ref:FragmentsOfRegexps', 'position': 'int', 'string': 'bytes', 'is_literal': 'bool'},
    defaults={'is_literal': 'True'},
    requires=["RxWF(self)", "position >= 0"],
    ensures=[
        # a literal is stored as it is and contributes its escaped text; a non-literal contributes its own text
        # and occupies ONE placeholder byte in the byte view
        "implies(is_literal, rx_stored(self, position, string, re_escape(string)))",
        "implies(not is_literal, rx_stored(self, position, b'x', string))",
        "RxWF(self)",
    ],
    # (a non-literal piece occupies one placeholder byte: it is refused only if that byte is taken)
    raises={'Exception': ["rx_unchanged(self)", "implies(not is_literal, old(occupied(self, position)))"]},
    modifies=RX_MOD))

add(Contract(
    'fragments:FragmentsOfRegexps.append',
    params={'self': 'ref:FragmentsOfRegexps', 'string': 'bytes', 'is_literal': 'bool'},
    defaults={'is_literal': 'True'},
    requires=["RxWF(self)", "self.current_offset >= 0"],
    ensures=[
        "implies(is_literal, rx_stored(self, old(self.current_offset), string, re_escape(string)))",
        "implies(not is_literal, rx_stored(self, old(self.current_offset), b'x', string))",
        "RxWF(self)",
    ],
    raises={'Exception': ["rx_unchanged(self)", "implies(not is_literal, old(occupied(self, self.current_offset)))"]},
    modifies=RX_MOD))

# ---------------------------------------------------------------- pack() bodies re-verified for a regexp buffer
# The same real bodies as for C05/C06, now with `fragments` a FragmentsOfRegexps: the chunk they append is a
# LITERAL piece - its regexp text is the escaped chunk (FragmentsOfRegexps.append overrides Fragments.append).
define('rx_appended(fr, b)', "rx_stored(fr, old(fr.current_offset), b, re_escape(b)) and RxWF(fr)")


def _variant(base, name, **over):
    c = base
    kw = dict(params=c.params, requires=c.requires, ensures=c.ensures, raises=c.raises, modifies=c.modifies,
              allocates=c.allocates, loops=c.loops, returns=c.returns, axioms=c.axioms, ghost=c.ghost,
              known=dict(c.known), defaults=getattr(c, 'defaults', None), ghost_init=c.ghost_init, varkw=c.varkw,
              ghost_kinds=c.ghost_kinds, call_asserts=c.call_asserts, call_ghost=c.call_ghost,
              call_effects=c.call_effects, free_requires=c.free_requires, target=c.target)
    kw.update(over)
    return add(Contract(name, **kw))


def _rxify(clauses):
    return [e.replace('appended(fragments', 'rx_appended(fragments').replace('unchanged(fragments)', 'rx_unchanged(fragments)')
             .replace('WF(fragments)', 'RxWF(fragments)') for e in clauses]


_PACK_VARIANTS = {}
for _q in ('field:Int._pack_fixed_and_primitive_size', 'field:Int._pack_fixed_size', 'field:Data.pack'):
    _b = c_field.CONTRACTS[_q]
    _p = dict(_b.params)
    _p['fragments'] = 'ref:FragmentsOfRegexps'
    _variant(_b, 'C18#' + _q, params=_p, requires=_rxify(_b.requires), ensures=_rxify(_b.ensures),
             raises={k: _rxify(v) for k, v in _b.raises.items()}, modifies=RXF_MOD, returns='ref:FragmentsOfRegexps',
             callee_variants={'fragments:Fragments.append': 'fragments:FragmentsOfRegexps.append'})
    _PACK_VARIANTS[_q] = 'C18#' + _q

# ---------------------------------------------------------------- Int.pack_regexp
add(Contract(
    'field:Int.pack_regexp',
    params={'self': 'ref:Int', 'pkt': 'ref:Packet', 'fragments': 'ref:FragmentsOfRegexps', 'k': 'kw'},
    requires=["IntCompiled(self)", "RxWF(fragments)", "fragments.current_offset >= 0", "hasslot(pkt, self.field_name)", "AtEnd(fragments)"],
    ensures=[
        "result == fragments", "RxWF(fragments)", "AtEnd(fragments)",
        # a fixed value: the escaped bytes pack() emits for it
        "implies(not isinst(old(slot(pkt, self.field_name)), 'Any'),"
        "        rx_appended(fragments, intbytes(intval(old(slot(pkt, self.field_name))), self.byte_count, self.is_bigendian, self.is_signed)))",
        # Any: any n bytes
        "implies(isinst(old(slot(pkt, self.field_name)), 'Any'),"
        "        rx_stored(fragments, old(fragments.current_offset), b'x', dot_n(self.byte_count)))",
    ],
    # a fixed value that pack() rejects (out of range, not an integer) - no string unpacks to it
    raises={'Exception': ["not isinst(old(slot(pkt, self.field_name)), 'Any')", "rx_unchanged(fragments)"]},
    callee_variants=_PACK_VARIANTS,
    modifies=RXF_MOD, allocates=True, returns='ref:FragmentsOfRegexps'))

# ---------------------------------------------------------------- Data.pack_regexp
# the text an Any() placeholder stands for by itself (plain Any(): anything)
define('any_rx(v)', "ite(isnone(asref(v, 'Any').regexp), b'.*', rx_pattern(asref(v, 'Any').regexp))")
_V = "old(slot(pkt, self.field_name))"
_V0 = "slot(pkt, self.field_name)"
_SZF = "old(slot(pkt, asref(self.byte_count, 'Field').field_name))"
_SZC = "old(cb(self.byte_count, pkt=pkt, k=k))"
add(Contract(
    'field:Data.pack_regexp',
    params={'self': 'ref:Data', 'pkt': 'ref:Packet', 'fragments': 'ref:FragmentsOfRegexps', 'k': 'kw'},
    requires=["RxWF(fragments)", "fragments.current_offset >= 0", "hasslot(pkt, self.field_name)", "AtEnd(fragments)",
              # what Data.__init__ / _compile establish about the sizing mode
              "isnone(self.byte_count) == (not isnone(self.until_marker))",
              "isnone(self.byte_count) or isint(self.byte_count) or isinst(self.byte_count, 'Field') or iscallable(self.byte_count)",
              "implies(isint(self.byte_count), intval(self.byte_count) >= 0 and not isbool(self.byte_count))",
              "implies(isinst(self.byte_count, 'Field'), hasslot(pkt, asref(self.byte_count, 'Field').field_name))",
              "isnone(self.until_marker) or isbytes(self.until_marker) or isregex(self.until_marker)",
              "implies(isinst(%s, 'Any'), isnone(asref(%s, 'Any').regexp) or isregex(asref(%s, 'Any').regexp))" % (_V0, _V0, _V0)],
    ensures=[
        "result == fragments", "RxWF(fragments)", "AtEnd(fragments)",
        # fixed value: the escaped bytes pack() emits (value + excluded literal delimiter)
        "implies(not isinst(%s, 'Any'), rx_appended(fragments, bytesval(%s) + self.delimiter_to_be_included))" % (_V, _V),
        # Any, n bytes known: any n bytes (constant size; size field fixed to an integer; size callback answering an integer)
        "implies(isinst(%s, 'Any') and isint(self.byte_count),"
        "        rx_stored(fragments, old(fragments.current_offset), b'x', dot_n(intval(self.byte_count))))" % _V,
        "implies(isinst(%s, 'Any') and isinst(self.byte_count, 'Field') and isint(%s) and not isbool(%s),"
        "        rx_stored(fragments, old(fragments.current_offset), b'x', dot_n(intval(%s))))" % (_V, _SZF, _SZF, _SZF),
        # Any, size not known (the size field is Any itself, the callback fails or answers None): anything
        "implies(isinst(%s, 'Any') and isinst(self.byte_count, 'Field') and isinst(%s, 'Any'),"
        "        rx_stored(fragments, old(fragments.current_offset), b'x', any_rx(%s)))" % (_V, _SZF, _V),
        # Any, delimited: anything followed by the (escaped) delimiter
        "implies(isinst(%s, 'Any') and isbytes(self.until_marker),"
        "        rx_stored(fragments, old(fragments.current_offset), b'x', any_rx(%s) + re_escape(bytesval(self.until_marker))))" % (_V, _V),
        "implies(isinst(%s, 'Any') and isregex(self.until_marker),"
        "        rx_stored(fragments, old(fragments.current_offset), b'x', any_rx(%s) + rx_pattern(self.until_marker)))" % (_V, _V),
    ],
    # building never fails for a placeholder; a fixed value that pack() rejects matches nothing anyway
    raises={'Exception': ["not isinst(%s, 'Any')" % _V, "rx_unchanged(fragments)"],
            # a size that is neither an integer nor Any (a user error in the pattern)
            'TypeError': ["isinst(%s, 'Any')" % _V,
                          "(isinst(self.byte_count, 'Field') and not isint(%s) and not isinst(%s, 'Any'))"
                          " or (iscallable(self.byte_count) and not isinst(self.byte_count, 'Field'))" % (_SZF, _SZF)]},
    callee_variants=_PACK_VARIANTS,
    modifies=RXF_MOD, allocates=True, returns='ref:FragmentsOfRegexps'))

# ---------------------------------------------------------------- FragmentsOfRegexps.assemble_regexp
# the assembled text is the left fold of the pieces in position order, a "(?:.{h})" hole piece before every
# piece that begins h > 0 placeholder bytes after the end of the previous one (rxfold / rxbegin: defined by
# exactly this unfolding, pyvc/specfuncs.py)
add(Contract(
    'fragments:FragmentsOfRegexps.assemble_regexp',
    params={'self': 'ref:FragmentsOfRegexps'},
    requires=["RxWF(self)"],
    ensures=["result == rxfold(self, dsize(self.regexp_by_position))"],
    loops={0: LoopSpec([
        "0 <= it and it <= dsize(self.regexp_by_position)", "len(result) >= 0",
        "forall(0, len(result), lambda j: isbytes(result[j]))",
        "joined(result) == rxfold(self, it)",
        "begin == rxbegin(self, it)",
    ])},
    modifies=[], allocates=True, returns='bytes', axioms=['join']))

# ---------------------------------------------------------------- Packet.as_regular_expression_impl
# abstract contract of ANY field's pack_regexp as seen by the driver (each concrete kind proved against its own,
# stronger contract above): it appends pieces at the end of the buffer and keeps it well formed
add(Contract(
    'role:FIELD.pack_regexp', role=True,
    params={'f': 'ref:Field', 'pkt': 'ref:Packet', 'fragments': 'ref:FragmentsOfRegexps', 'stack': 'dyn'},
    requires=["RxWF(fragments)", "AtEnd(fragments)", "fragments.current_offset >= 0"],
    ensures=["RxWF(fragments)", "AtEnd(fragments)", "fragments.current_offset >= old(fragments.current_offset)"],
    raises={'Exception*': []},
    modifies=RXF_MOD, allocates=True, returns='dyn'))

add(Contract(
    'packet:Packet.as_regular_expression_impl',
    params={'self': 'ref:Packet', 'fragments': 'ref:FragmentsOfRegexps', 'stack': 'dyn'},
    requires=["RxWF(fragments)", "AtEnd(fragments)", "fragments.current_offset >= 0"],
    ensures=["RxWF(fragments)", "AtEnd(fragments)",
             # every entry of the field table contributed, in table order
             "g_pieces == FT(self)"],
    raises={'Exception*': []},
    loops={0: LoopSpec(["0 <= it and it <= FT(self)", "g_pieces == it", "RxWF(fragments)", "AtEnd(fragments)",
                        "fragments.current_offset >= 0"], ghost_havoc=['g_pieces'])},
    ghost_init={'g_pieces': '0'}, ghost_kinds={'g_pieces': 'int'},
    call_asserts={'FIELD.pack_regexp': ["same(arg_f, ft_field(class_of(self), g_pieces))", "same(arg_pkt, self)",
                                        "same(arg_fragments, fragments)"]},
    call_effects={'FIELD.pack_regexp': {'g_pieces': 'g_pieces + 1'}},
    modifies=RXF_MOD, allocates=True, returns='none'))

# ---------------------------------------------------------------- the entry point
add(Contract(
    'packet:Packet.as_regular_expression',
    params={'self': 'ref:Packet', 'debug': 'bool'}, defaults={'debug': 'False'},
    ensures=[
        # the compiled expression is "(?s)" followed by the assembled pieces of a buffer that every field of the
        # table contributed to, in table order (g_* : ghost, the buffer object created by the call)
        "isregex(result)", "g_asm_called",
        "rx_pattern(result) == b'(?s)' + g_asm",
    ],
    raises={'Exception*': []},
    call_asserts={'FragmentsOfRegexps.assemble_regexp': ["g_impl_called", "same(arg_self, g_buf)"],
                  'Packet.as_regular_expression_impl': ["same(arg_self, self)", "fresh_since(arg_fragments)"]},
    call_effects={'Packet.as_regular_expression_impl': {'g_impl_called': 'True', 'g_buf': 'arg_fragments'},
                  'FragmentsOfRegexps.assemble_regexp': {'g_asm_called': 'True', 'g_asm': 'result'}},
    ghost_init={'g_impl_called': 'False', 'g_asm_called': 'False', 'g_asm': "b''", 'g_buf': 'None'},
    ghost_kinds={'g_impl_called': 'bool', 'g_asm_called': 'bool', 'g_asm': 'bytes', 'g_buf': 'dyn'},
    modifies=[], allocates=True, returns='dyn'))

# FragmentsOfRegexps.__init__(*args, **kargs) forwards its arguments to Fragments.__init__ (proved, C11) and creates an
# empty piece map.  Proved for the way the library constructs it (no arguments: both requires are obligations at the
# one call site, Packet.as_regular_expression); the forwarding call is translated as Fragments.__init__(self) under
# the call-site obligations "*args is empty" / "**kargs is empty" (pyvc/execute.py m_call)
add(Contract(
    'fragments:FragmentsOfRegexps.__init__',
    params={'self': 'ref:FragmentsOfRegexps', 'args': 'varargs', 'kargs': 'conf'}, varkw='kargs',
    requires=["len(args) == 0", "nokw(kargs)"],
    ensures=["RxWF(self)", "self.current_offset == 0", "forall(lambda q: not (q in self.fragments))", "AtEnd(self)",
             "forall(lambda q: not (q in self.regexp_by_position))", "fresh_since(self.begin_of_fragments)"],
    modifies=['self.*'], allocates=True))
