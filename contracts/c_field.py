"""Contracts for bisturi/field.py: Field, Int (C05), Data (C06/C04), Bits (C07), Ref, Em."""
from pyvc.symex import Contract, LoopSpec
from pyvc.specev import define
from . import c_fragments  # noqa: F401  (WF, stored, occupied macros)

CONTRACTS = {}


def add(c):
    CONTRACTS[c.name] = c
    return c


# the chunk b is appended at the cursor: whole-view relation between old and new buffer
define('appended(fr, b)', "stored(fr, old(fr.current_offset), b) and WF(fr)")
FRAG_MOD = ['fragments.fragments{*}', 'fragments.begin_of_fragments[*]', 'fragments.current_offset',
            'fragments.ghost_idx{*}']

# ---------------------------------------------------------------- Field
add(Contract(
    'field:Field._compile_impl',
    params={'self': 'ref:Field', 'position': 'int', 'fields': 'list', 'bisturi_conf': 'conf'},
    ensures=["len(result) >= 1", "result[0] == self.field_name", "fresh_since(result)",
             "len(result) == ite(bool(self.descriptor), 2, 1)",
             "implies(bool(self.descriptor), result[1] == self.descriptor_name)"],
    modifies=[], allocates=True, returns='list'))

# ---------------------------------------------------------------- Int (C05)
define('struct_code_of(n, sg)',
       "ite(n == 1, ite(sg, 'b', 'B'), ite(n == 2, ite(sg, 'h', 'H'), ite(n == 4, ite(sg, 'i', 'I'), ite(sg, 'q', 'Q'))))")
define('is_big_spelling(e)', "e == 'big' or e == 'network' or (e == 'local' and sys_byteorder() == 'big')")
define('is_prim(n)', "n == 1 or n == 2 or n == 4 or n == 8")
# what Int._compile must establish (statement: big, little, network, local or class-default byte order)
define('IntCompiled(self)',
       "self.byte_count >= 1"
       " and implies(is_prim(self.byte_count),"
       "       self.struct_obj.size == self.byte_count and self.struct_obj.big == self.is_bigendian"
       "       and self.struct_obj.signed == self.is_signed"
       "       and same(self.struct_code, struct_code_of(self.byte_count, self.is_signed))"
       "       and self.pack == 'field:Int._pack_fixed_and_primitive_size'"
       "       and self.unpack == 'field:Int._unpack_fixed_and_primitive_size')"
       " and implies(not is_prim(self.byte_count),"
       "       isnone(self.struct_code) and self.base == pow2(8 * self.byte_count)"
       "       and self.pack == 'field:Int._pack_fixed_size' and self.unpack == 'field:Int._unpack_fixed_size')")
# what the primitive pair needs from the compiled state
define('IntPrim(self)',
       "self.byte_count >= 1 and self.struct_obj.size == self.byte_count"
       " and self.struct_obj.big == self.is_bigendian and self.struct_obj.signed == self.is_signed")

add(Contract(
    'field:Int._compile',
    params={'self': 'ref:Int', 'position': 'int', 'fields': 'list', 'bisturi_conf': 'conf'},
    requires=["self.byte_count >= 1"],
    ensures=[
        "IntCompiled(self)",
        # byte order: the declared spelling, or the class-level default when the field does not say
        "self.is_bigendian == is_big_spelling(ite(isnone(old(self.endianness)),"
        "     conf_get(bisturi_conf, 'endianness', 'big'), old(self.endianness)))",
        "self.byte_count == old(self.byte_count) and self.is_signed == old(self.is_signed)",
        "self.field_name == old(self.field_name)",
        "len(result) >= 1 and result[0] == self.field_name",
    ],
    modifies=['self.endianness', 'self.is_bigendian', 'self.struct_code', 'self.struct_obj', 'self.base',
              'self.pack', 'self.unpack'],
    allocates=True, returns='list'))

_int_decode = [
    # decoded from exactly n bytes, all of them inside the input (C04) ...
    "offset + self.byte_count <= len(raw)",
    "result == offset + self.byte_count",
    # ... to exactly the unsigned / two's-complement value of those bytes in that order (C05)
    "isint(slot(pkt, self.field_name)) and not isbool(slot(pkt, self.field_name))",
    "intval(slot(pkt, self.field_name)) =="
    " val(raw[offset:offset + self.byte_count], self.is_bigendian, self.is_signed)",
    "hasslot(pkt, self.field_name)",
]

add(Contract(
    'field:Int._unpack_fixed_and_primitive_size',
    params={'self': 'ref:Int', 'pkt': 'ref:Packet', 'raw': 'bytes', 'offset': 'int', 'k': 'kw'},
    requires=["IntPrim(self)", "offset >= 0"],
    ensures=_int_decode,
    raises={'StructError': ["offset + self.byte_count > len(raw)"]},
    modifies=['slot(pkt, self.field_name)'], returns='int'))

add(Contract(
    'field:Int._unpack_fixed_size',
    params={'self': 'ref:Int', 'pkt': 'ref:Packet', 'raw': 'bytes', 'offset': 'int', 'k': 'kw'},
    requires=["self.byte_count >= 1", "offset >= 0"],
    ensures=_int_decode,
    raises={'Exception': ["offset + self.byte_count > len(raw)"]},
    modifies=['slot(pkt, self.field_name)'], returns='int'))

_int_encode = [
    # only representable integers are encoded (no wrapping, truncating or padding) ...
    "isint(old(slot(pkt, self.field_name)))",
    "int_lo(self.byte_count, self.is_signed) <= intval(old(slot(pkt, self.field_name)))",
    "intval(old(slot(pkt, self.field_name))) <= int_hi(self.byte_count, self.is_signed)",
    # ... to exactly the n bytes that decode back to the value, appended at the cursor
    "appended(fragments, intbytes(intval(old(slot(pkt, self.field_name))), self.byte_count,"
    "                             self.is_bigendian, self.is_signed))",
    "len(intbytes(intval(old(slot(pkt, self.field_name))), self.byte_count, self.is_bigendian, self.is_signed))"
    " == self.byte_count",
    "val(intbytes(intval(old(slot(pkt, self.field_name))), self.byte_count, self.is_bigendian, self.is_signed),"
    "    self.is_bigendian, self.is_signed) == intval(old(slot(pkt, self.field_name)))",
    "result == fragments",
]
_int_encode_raises = {'Exception': ["unchanged(fragments)"]}

add(Contract(
    'field:Int._pack_fixed_and_primitive_size',
    params={'self': 'ref:Int', 'pkt': 'ref:Packet', 'fragments': 'ref:Fragments', 'k': 'kw'},
    requires=["IntPrim(self)", "WF(fragments)", "fragments.current_offset >= 0", "hasslot(pkt, self.field_name)"],
    ensures=_int_encode, raises=_int_encode_raises,
    modifies=FRAG_MOD, returns='ref:Fragments'))

add(Contract(
    'field:Int._pack_fixed_size',
    params={'self': 'ref:Int', 'pkt': 'ref:Packet', 'fragments': 'ref:Fragments', 'k': 'kw'},
    requires=["self.byte_count >= 1", "self.base == pow2(8 * self.byte_count)",
              "WF(fragments)", "fragments.current_offset >= 0", "hasslot(pkt, self.field_name)"],
    ensures=_int_encode, raises=_int_encode_raises,
    modifies=FRAG_MOD, returns='ref:Fragments'))

# ---------------------------------------------------------------- Data (C06, C04)
_sized_posts = lambda size: [x % dict(size=size) for x in [
    # exactly the declared number of bytes, all inside the input
    "isint(%(size)s) and intval(%(size)s) >= 0",
    "implies(intval(%(size)s) > 0, offset + intval(%(size)s) <= len(raw))",
    "isbytes(slot(pkt, self.field_name)) and hasslot(pkt, self.field_name)",
    "bytesval(slot(pkt, self.field_name)) == raw[offset:offset + intval(%(size)s)]",
    "len(bytesval(slot(pkt, self.field_name))) == intval(%(size)s)",
    "result == offset + intval(%(size)s)",
]]
_sized_raise = lambda size, extra='False': {'Exception*': [
    # a short read or a negative size (or a failing size callback) is an error - and nothing else is
    ("not isint(%(size)s) or intval(%(size)s) < 0 or (intval(%(size)s) > 0 and offset + intval(%(size)s) > len(raw))"
     " or (%(extra)s)"
     % dict(size=size, extra=extra))]}

add(Contract(
    'field:Data._unpack_fixed_size',
    params={'self': 'ref:Data', 'pkt': 'ref:Packet', 'raw': 'bytes', 'offset': 'int', 'k': 'kw'},
    requires=["offset >= 0"],
    ensures=_sized_posts('self.byte_count'), raises=_sized_raise('self.byte_count'),
    modifies=['slot(pkt, self.field_name)'], returns='int'))

_SZ_F = "old(slot(pkt, asref(self.byte_count, 'Field').field_name))"
add(Contract(
    'field:Data._unpack_variable_size_field',
    params={'self': 'ref:Data', 'pkt': 'ref:Packet', 'raw': 'bytes', 'offset': 'int', 'k': 'kw'},
    requires=["offset >= 0", "isinst(self.byte_count, 'Field')",
              "hasslot(pkt, asref(self.byte_count, 'Field').field_name)"],
    ensures=_sized_posts(_SZ_F), raises=_sized_raise(_SZ_F),
    modifies=['slot(pkt, self.field_name)'], returns='int'))

_SZ_C = "old(cb(self.byte_count, pkt=pkt, raw=raw, offset=offset, k=k))"
add(Contract(
    'field:Data._unpack_variable_size_callable',
    params={'self': 'ref:Data', 'pkt': 'ref:Packet', 'raw': 'bytes', 'offset': 'int', 'k': 'kw'},
    requires=["offset >= 0", "iscallable(self.byte_count)"],
    ensures=_sized_posts(_SZ_C) + ["not old(cb_raises(self.byte_count, pkt=pkt, raw=raw, offset=offset, k=k))"],
    raises=_sized_raise(_SZ_C, "old(cb_raises(self.byte_count, pkt=pkt, raw=raw, offset=offset, k=k))"),
    modifies=['slot(pkt, self.field_name)'], returns='int'))

# the search window of a delimited field: [offset, offset+W) cut to the input, or to the end
define('W_(self)', "self._search_buffer_length")
define('win_lo(raw, offset)', "min(offset, len(raw))")
define('win_hi(self, raw, offset)',
       "ite(bool(W_(self)), min(offset + intval(W_(self)), len(raw)), len(raw))")
define('win(self, raw, offset)',
       "ite(bool(W_(self)), raw[offset:offset + intval(W_(self))], raw[offset:])")
define('MK(self)', "bytesval(self.until_marker)")
define('DataDelimWF(self)',
       "(isnone(W_(self)) or (isint(W_(self)) and not isbool(W_(self)) and intval(W_(self)) >= 0))"
       " and implies(self.include_delimiter, self.consume_delimiter)")

_C = "find(win(self, raw, offset), MK(self))"
add(Contract(
    'field:Data._unpack_with_string_marker',
    params={'self': 'ref:Data', 'pkt': 'ref:Packet', 'raw': 'bytes', 'offset': 'int', 'k': 'kw'},
    requires=["offset >= 0", "isbytes(self.until_marker)", "len(MK(self)) > 0", "DataDelimWF(self)",
              # invariant of compiled bytes-marker fields (established by Data.__init__)
              "self.delimiter_to_be_included == ite(self.include_delimiter, b'', MK(self))"],
    ensures=[
        # the delimiter occurs at offset+c, inside the input ...
        "%(c)s >= 0" % dict(c=_C),
        "using(match_shift(raw, win_lo(raw, offset), win_hi(self, raw, offset), %(c)s, MK(self)),"
        "      match(raw, offset + %(c)s, MK(self)))" % dict(c=_C),
        "offset + %(c)s + len(MK(self)) <= len(raw)" % dict(c=_C),
        # ... and inside the configured search window ...
        "implies(bool(W_(self)), %(c)s + len(MK(self)) <= intval(W_(self)))" % dict(c=_C),
        # ... and it is the first occurrence at or after the cursor that lies within the window
        "forall(0, %(c)s, lambda c2: using("
        "   match_shift(raw, win_lo(raw, offset), win_hi(self, raw, offset), c2, MK(self)),"
        "   not (match(raw, offset + c2, MK(self)) and offset + c2 + len(MK(self)) <= win_hi(self, raw, offset))))"
        % dict(c=_C),
        # delimiter included in / excluded from the value as declared, cursor left just past it
        "isbytes(slot(pkt, self.field_name)) and hasslot(pkt, self.field_name)",
        "implies(self.include_delimiter, bytesval(slot(pkt, self.field_name)) =="
        "        raw[offset:offset + %(c)s + len(MK(self))])" % dict(c=_C),
        "implies(not self.include_delimiter, bytesval(slot(pkt, self.field_name)) == raw[offset:offset + %(c)s])"
        % dict(c=_C),
        "implies(self.consume_delimiter, result == offset + %(c)s + len(MK(self)))" % dict(c=_C),
        "implies(not self.consume_delimiter, result == offset + %(c)s)" % dict(c=_C),
    ],
    # a missing delimiter is an error (and nothing else is)
    raises={'AssertionError': ["%(c)s < 0" % dict(c=_C)]},
    modifies=['slot(pkt, self.field_name)'], returns='int'))

_RB = "win(self, raw, offset)"
add(Contract(
    'field:Data._unpack_with_regexp_marker',
    params={'self': 'ref:Data', 'pkt': 'ref:Packet', 'raw': 'bytes', 'offset': 'int', 'k': 'kw'},
    requires=["offset >= 0", "isregex(self.until_marker)", "DataDelimWF(self)"],
    ensures=[
        "isbytes(slot(pkt, self.field_name)) and hasslot(pkt, self.field_name)",
        # end-of-string shortcut: everything up to the end of the input
        "implies(rx_pattern(self.until_marker) == b'$',"
        "        bytesval(slot(pkt, self.field_name)) == raw[offset:len(raw)] and result == len(raw))",
        # otherwise: the (leftmost) match of the pattern inside the search window
        "implies(rx_pattern(self.until_marker) != b'$', rx_found(self.until_marker, %(b)s))" % dict(b=_RB),
        "implies(rx_pattern(self.until_marker) != b'$' and self.include_delimiter,"
        "        bytesval(slot(pkt, self.field_name)) == raw[offset:offset + rx_end(self.until_marker, %(b)s)]"
        "        and result == offset + rx_end(self.until_marker, %(b)s))" % dict(b=_RB),
        "implies(rx_pattern(self.until_marker) != b'$' and not self.include_delimiter,"
        "        bytesval(slot(pkt, self.field_name)) == raw[offset:offset + rx_start(self.until_marker, %(b)s)]"
        "        and result == offset + ite(self.consume_delimiter, rx_end(self.until_marker, %(b)s),"
        "                                   rx_start(self.until_marker, %(b)s)))" % dict(b=_RB),
        # the match lies inside the window and inside the input
        "implies(rx_pattern(self.until_marker) != b'$', rx_end(self.until_marker, %(b)s) <= len(%(b)s))" % dict(b=_RB),
        # the field object is written only when the matched delimiter is not part of the value (finding K13a)
        "implies(self.include_delimiter or rx_pattern(self.until_marker) == b'$',"
        "        self.delimiter_to_be_included == old(self.delimiter_to_be_included))",
        "implies(rx_pattern(self.until_marker) != b'$' and rx_end(self.until_marker, %(b)s) > 0,"
        "        offset + rx_end(self.until_marker, %(b)s) <= win_hi(self, raw, offset))" % dict(b=_RB),
    ],
    raises={'AssertionError': ["rx_pattern(self.until_marker) != b'$' and not rx_found(self.until_marker, %(b)s)"
                               % dict(b=_RB)]},
    # NB: the regexp variant also stores the matched delimiter on the (shared) field object - finding F2 of C13
    modifies=['slot(pkt, self.field_name)', 'self.delimiter_to_be_included'], returns='int'))

add(Contract(
    'field:Data.pack',
    params={'self': 'ref:Data', 'pkt': 'ref:Packet', 'fragments': 'ref:Fragments', 'k': 'kw'},
    requires=["WF(fragments)", "fragments.current_offset >= 0", "hasslot(pkt, self.field_name)"],
    ensures=[
        # packing re-emits the value followed by the excluded literal delimiter
        "isbytes(old(slot(pkt, self.field_name)))",
        "appended(fragments, bytesval(old(slot(pkt, self.field_name))) + self.delimiter_to_be_included)",
        "result == fragments",
    ],
    raises={'Exception': ["unchanged(fragments)"]},
    modifies=FRAG_MOD, returns='ref:Fragments'))

# ---------------------------------------------------------------- Ref (C08)
from . import c_packet  # noqa: E402,F401  (StackWF, role contracts)

add(Contract(
    'field:Ref._unpack_referencing_a_packet',
    params={'self': 'ref:Ref', 'pkt': 'ref:Packet', 'k': 'kw'},
    requires=["k.has_raw and k.has_off and k.koff >= 0"],
    ensures=[
        # a nested packet: a fresh instance of the prototype's class, stored in the field's slot,
        # parsed at the current position by its own unpack_impl, and parsing continues after it
        "hasslot(pkt, self.field_name) and isinst(slot(pkt, self.field_name), 'Packet')",
        "fresh_since(asref(slot(pkt, self.field_name), 'Packet'))",
        "class_of(asref(slot(pkt, self.field_name), 'Packet')) == self.proto_class",
        "result >= 0",
    ],
    raises={'PacketError': ["exc.was_error_found_in_unpacking_phase == True", "StackWF(exc)",
                            "fresh_since(exc) and fresh_since(exc.fields_stack)"],
            'OtherException*': []},     # only through finding K12a of the nested unpack_impl (C12)
    # the nested packet is attached to its parent BEFORE it is parsed: callbacks of deeper fields reach it through root / the parent
    call_asserts={'Packet.unpack_impl': ["hasslot(pkt, self.field_name) and same(slot(pkt, self.field_name), arg_self)"]},
    modifies=['slot(pkt, self.field_name)'], allocates=True, returns='int'))

add(Contract(
    'field:Ref._pack_referencing_a_packet',
    params={'self': 'ref:Ref', 'pkt': 'ref:Packet', 'fragments': 'ref:Fragments', 'k': 'kw'},
    requires=["WF(fragments)", "fragments.current_offset >= 0", "hasslot(pkt, self.field_name)"],
    ensures=["result == fragments", "WF(fragments)", "fragments.current_offset >= 0",
             "isinst(old(slot(pkt, self.field_name)), 'Packet')"],
    raises={'PacketError': ["exc.was_error_found_in_unpacking_phase == False", "StackWF(exc)", "WF(fragments)"],
            'AttributeError': ["not isinst(old(slot(pkt, self.field_name)), 'Packet')", "unchanged(fragments)"],
            'OtherException*': []},     # only through finding K12a of the nested pack_impl (C12)
    # the nested packet's (scratch) slots and the buffer
    modifies=["slot(asref(slot(pkt, self.field_name), 'Packet'), *)"] + FRAG_MOD, allocates=True,
    returns='ref:Fragments'))

# ---------------------------------------------------------------- init of the leaf kinds (C19)
# after init the field's slot holds the keyword argument if given, else the declared default
_init_posts = [
    "hasslot(packet, self.field_name)",
    "implies(self.field_name in defaults, same(slot(packet, self.field_name), defaults[self.field_name]))",
]
add(Contract(
    'field:Int.init',
    params={'self': 'ref:Int', 'packet': 'ref:Packet', 'defaults': 'conf'},
    ensures=_init_posts + [
        "implies(not (self.field_name in defaults), same(slot(packet, self.field_name), self.default))"],
    modifies=['slot(packet, self.field_name)']))
add(Contract(
    'field:Data.init',
    params={'self': 'ref:Data', 'packet': 'ref:Packet', 'defaults': 'conf'},
    ensures=_init_posts + [
        "implies(not (self.field_name in defaults), same(slot(packet, self.field_name), self.default))"],
    modifies=['slot(packet, self.field_name)']))
add(Contract(
    'field:Field.init',
    params={'self': 'ref:Field', 'packet': 'ref:Packet', 'defaults': 'conf'},
    ensures=_init_posts + [
        # immutable defaults are used as they are, anything else is deep-copied: a fresh object
        # (never shared with the declaration or with another packet)
        "implies(not (self.field_name in defaults) and (isint(self.default) or isnone(self.default) or isbytes(self.default)),"
        "        same(slot(packet, self.field_name), self.default))",
        "implies(not (self.field_name in defaults) and not (isint(self.default) or isnone(self.default)"
        "        or isbytes(self.default) or isstr(self.default)),"
        "        fresh_since(slot(packet, self.field_name)))",
        # ... deeply: a default list shares no mutable element with the declaration either
        "implies(not (self.field_name in defaults) and islist(self.default),"
        "        islist(slot(packet, self.field_name)) and forall(0, len(aslist(slot(packet, self.field_name))), lambda j:"
        "           isprim(aslist(slot(packet, self.field_name))[j]) or fresh_since(aslist(slot(packet, self.field_name))[j]),"
        "           pat=lambda j: aslist(slot(packet, self.field_name))[j]))",
    ],
    modifies=['slot(packet, self.field_name)'], allocates=True))

# ---------------------------------------------------------------- constructors that compute defaults (C19, C06)
add(Contract(
    'field:Field.__init__',
    params={'self': 'ref:Field'},
    ensures=["not self.is_fixed", "isnone(self.struct_code)", "self.is_bigendian",
             "isnone(self.move_arg) and isnone(self.reference) and isnone(self.is_alignment)",
             "isnone(self.descriptor) and isnone(self.descriptor_name)"],
    modifies=['self.is_fixed', 'self.struct_code', 'self.is_bigendian', 'self.move_arg', 'self.reference',
              'self.is_alignment', 'self.descriptor', 'self.descriptor_name']))

add(Contract(
    'field:Data.__init__',
    params={'self': 'ref:Data', 'byte_count': 'dyn', 'until_marker': 'dyn', 'include_delimiter': 'bool',
            'consume_delimiter': 'bool', 'default': 'dyn'},
    defaults={'byte_count': 'None', 'until_marker': 'None', 'include_delimiter': 'False',
              'consume_delimiter': 'True', 'default': "b''"},
    ensures=[
        "isbytes(default)",
        # NUL bytes of the declared size for fixed byte strings without an explicit default, else the given one
        "implies(len(bytesval(default)) == 0 and isint(byte_count),"
        "        isbytes(self.default) and len(bytesval(self.default)) == max(intval(byte_count), 0)"
        "        and forall(0, len(bytesval(self.default)), lambda i: bytesval(self.default)[i] == 0))",
        "implies(not (len(bytesval(default)) == 0 and isint(byte_count)), same(self.default, default))",
        # exactly one of size / delimiter; what pack re-emits after the value
        "isnone(byte_count) != isnone(until_marker)",
        "same(self.byte_count, byte_count) and same(self.until_marker, until_marker)",
        "self.include_delimiter == include_delimiter and self.consume_delimiter == consume_delimiter",
        "self.delimiter_to_be_included == ite(isbytes(until_marker) and not include_delimiter,"
        "                                     bytesval(until_marker), b'')",
        "implies(include_delimiter, consume_delimiter)",
        "self.is_fixed == isint(byte_count)",
        "isnone(until_marker) or isbytes(until_marker) or isregex(until_marker)",
    ],
    raises={'ValueError': ["not isbytes(default) or not (isnone(until_marker) or isbytes(until_marker) or isregex(until_marker))"
                           " or (isregex(until_marker) and True)"],
            'AssertionError': ["(isnone(byte_count) == isnone(until_marker)) or (include_delimiter and not consume_delimiter)"]},
    modifies=['self.*']))

add(Contract(
    'role:FIELD.init', role=True,
    params={'f': 'ref:Field', 'packet': 'ref:Packet', 'defaults': 'conf'},
    ensures=[], raises={'OtherException*': []},
    modifies=['slot(packet, in:owns(f, n))'], allocates=True))

# ---------------------------------------------------------------- Bits (C07)
# state established by Bits._compile for every member of a run (ghost_w: the declared width)
define('BitsWF(self)',
       "self.ghost_w >= 1 and self.shift >= 0"
       " and self.mask == lshift(pow2(self.ghost_w) - 1, self.shift)"
       " and IntCompiled(self.I) and self.I.is_bigendian and not self.I.is_signed"
       " and self.I.field_name != self.field_name")

add(Contract(
    'field:Bits.unpack',
    params={'self': 'ref:Bits', 'pkt': 'ref:Packet', 'raw': 'bytes', 'offset': 'int', 'k': 'kw'},
    requires=["BitsWF(self)", "offset >= 0",
              "implies(not self.iam_first, hasslot(pkt, self.I.field_name) and isint(slot(pkt, self.I.field_name)))"],
    ensures=[
        # the first member of a run reads the run's bytes as one big-endian unsigned integer (strictly: C04)
        "implies(self.iam_first, offset + self.I.byte_count <= len(raw) and result == offset + self.I.byte_count"
        "        and intval(slot(pkt, self.I.field_name)) == val(raw[offset:offset + self.I.byte_count], True, False))",
        "implies(not self.iam_first, result == offset"
        "        and same(slot(pkt, self.I.field_name), old(slot(pkt, self.I.field_name))))",
        "hasslot(pkt, self.I.field_name) and isint(slot(pkt, self.I.field_name))",
        # every member gets (I & mask) >> shift - by lemma C07.unpack_slice exactly its own bit slice
        "hasslot(pkt, self.field_name) and isint(slot(pkt, self.field_name))",
        "intval(slot(pkt, self.field_name)) =="
        " rshift(band(intval(slot(pkt, self.I.field_name)), self.mask), self.shift)",
    ],
    raises={'Exception': ["self.iam_first and offset + self.I.byte_count > len(raw)"]},
    modifies=['slot(pkt, self.field_name)', 'slot(pkt, self.I.field_name)'], returns='int'))

add(Contract(
    'field:Bits.pack',
    params={'self': 'ref:Bits', 'pkt': 'ref:Packet', 'fragments': 'ref:Fragments', 'k': 'kw'},
    requires=["BitsWF(self)", "WF(fragments)", "fragments.current_offset >= 0",
              "hasslot(pkt, self.field_name)",
              "hasslot(pkt, self.I.field_name) and isint(slot(pkt, self.I.field_name))"],
    ensures=[
        "isint(old(slot(pkt, self.field_name)))",
        # the shared integer is merged as ((v << shift) & mask) | (I & ~mask): by lemmas C07.pack_* the
        # member's slice becomes v mod 2^w and every other slice is untouched, for ANY integer v
        "isint(slot(pkt, self.I.field_name)) and intval(slot(pkt, self.I.field_name)) =="
        " bor(band(lshift(intval(old(slot(pkt, self.field_name))), self.shift), self.mask),"
        "     band(intval(old(slot(pkt, self.I.field_name))), bnot(self.mask)))",
        # only the last member of the run emits the bytes, via the shared Int
        "implies(not self.iam_last, unchanged(fragments) and result == fragments)",
        "implies(self.iam_last, appended(fragments, intbytes(intval(slot(pkt, self.I.field_name)), self.I.byte_count, True, False)))",
    ],
    raises={'Exception': ["unchanged(fragments)"]},
    modifies=['slot(pkt, self.I.field_name)'] + FRAG_MOD, returns='dyn'))

# ---------------------------------------------------------------- constructors of Int / Bits, Bits._compile (C07)
add(Contract(
    'field:Int.__init__',
    params={'self': 'ref:Int', 'byte_count': 'int', 'signed': 'bool', 'endianness': 'dyn', 'default': 'dyn'},
    defaults={'byte_count': '4', 'signed': 'False', 'endianness': 'None', 'default': '0'},
    ensures=["self.byte_count == byte_count and self.is_signed == signed and same(self.endianness, endianness)",
             "same(self.default, default)", "self.is_fixed", "isnone(self.move_arg) and isnone(self.descriptor)"],
    modifies=['self.*']))

add(Contract(
    'field:Bits.__init__',
    params={'self': 'ref:Bits', 'bit_count': 'int', 'default': 'dyn'},
    defaults={'default': '0'},
    requires=["bit_count >= 0"],
    ensures=["self.bit_count == bit_count and self.ghost_w == bit_count", "same(self.default, default)",
             "not self.iam_first and not self.iam_last", "self.mask == pow2(bit_count) - 1"],
    ghost={'self.ghost_w': 'bit_count'},
    modifies=['self.*']))

# the (name, field) pairs of the class under construction
define('RUN_LO(self, position)', "position + 1 - len(self.members)")
define('FLD(fields, j)', "asref(tupitem(fields[j], 2, 1), 'Bits')")
define('isbits(fields, j)', "isinst(tupitem(fields[j], 2, 1), 'Bits')")
define('FieldsWF(fields)',
       "forall(0, len(fields), lambda j: istuple(fields[j], 2) and isinst(tupitem(fields[j], 2, 1), 'Field')"
       "       and allocated(tupitem(fields[j], 2, 1)))"
       # distinct entries are distinct objects
       " and forall(lambda i, j: implies(0 <= i and i < j and j < len(fields),"
       "       not same(tupitem(fields[i], 2, 1), tupitem(fields[j], 2, 1))))"
       # Bits entries are not compiled yet: width still present, >= 1
       " and forall(0, len(fields), lambda j: implies(isbits(fields, j),"
       "       hasattr_bit_count(FLD(fields, j)) and FLD(fields, j).bit_count == FLD(fields, j).ghost_w"
       "       and FLD(fields, j).ghost_w >= 1))")
# member j of the run that ends at position p has been laid out: MSB first, i.e. its shift is the total
# width of the members after it, its mask covers exactly its own ghost_w bits, and it shares the run's Int
define('laid_out(fields, j, p, I)',
       "isbits(fields, j) and FLD(fields, j).shift == wsum(fields, j + 1, p + 1)"
       " and FLD(fields, j).shift >= 0 and FLD(fields, j).ghost_w >= 1"
       " and FLD(fields, j).mask == lshift(pow2(FLD(fields, j).ghost_w) - 1, FLD(fields, j).shift)"
       " and FLD(fields, j).I == I")

add(Contract(
    'field:Bits._compile',
    params={'self': 'ref:Bits', 'position': 'int', 'fields': 'list', 'bisturi_conf': 'conf'},
    requires=["0 <= position and position < len(fields)", "allocated(fields)", "FieldsWF(fields)",
              "same(tupitem(fields[position], 2, 1), self)",
              "not self.iam_first and not self.iam_last"],
    ensures=[
        "self.iam_first == (position == 0 or not isbits(fields, position - 1))",
        "self.iam_last == (position == len(fields) - 1 or not isbits(fields, position + 1))",
        # the last member of a run lays the whole run out; the run is fields[RUN_LO .. position]
        "implies(self.iam_last, 0 <= RUN_LO(self, position) and RUN_LO(self, position) <= position"
        "        and (RUN_LO(self, position) == 0 or not isbits(fields, RUN_LO(self, position) - 1))"
        "        and forall(RUN_LO(self, position), position + 1, lambda j: laid_out(fields, j, position, self.I)))",
        # one shared big-endian unsigned Int of total/8 bytes
        "implies(self.iam_last, IntCompiled(self.I) and self.I.is_bigendian and not self.I.is_signed"
        "        and 8 * self.I.byte_count == wsum(fields, RUN_LO(self, position), position + 1) and fresh_since(self.I))",
    ],
    raises={
        # a run whose total width is not a multiple of 8 is rejected while the class is being defined
        'ByteBoundaryError': ["pymod(wsum(fields, RUN_LO(self, position), position + 1), 8) != 0"],
    },
    loops={0: LoopSpec([
        "0 <= it and it <= position + 1",
        "cumshift == wsum(fields, position + 1 - it, position + 1)",
        "len(self.members) == it and allocated(self.members)",
        "forall(position + 1 - it, position + 1, lambda j: laid_out(fields, j, position, I))",
        # members not reached yet are untouched
        "forall(0, position + 1 - it, lambda j: implies(isbits(fields, j),"
        "       hasattr_bit_count(FLD(fields, j)) and FLD(fields, j).bit_count == FLD(fields, j).ghost_w))",
        "self.iam_last and fresh_since(I) and cumshift >= it",
        "isnone(I.endianness) and not I.is_signed",
        "not same(self.members, fields)",
    ], kinds={'n': 'dyn', 'f': 'dyn'},
        modifies=['self.members[*]', 'Bits.shift[*]', 'Bits.mask[*]', 'Bits.I[*]', 'Bits.bit_count[*]'])},
    modifies=['self.iam_first', 'self.iam_last', 'self.members', 'self.members[*]',
              'Bits.shift[*]', 'Bits.mask[*]', 'Bits.I[*]', 'Bits.bit_count[*]'],
    allocates=True, returns='list'))

# ---------------------------------------------------------------- Ref with a run-time selector (C08)
# The selector (self.prototype, a user callable) chooses a Field or a Packet for THIS reference:
# a chosen field is (re)named after this reference, compiled, initialised and then parses at the
# current position; a chosen packet is stored in this reference's slot and parses at the current position.
add(Contract(
    'role:FIELD._compile', role=True,
    params={'f': 'ref:Field', 'position': 'int', 'fields': 'dyn', 'bisturi_conf': 'conf'},
    ensures=["f.field_name == old(f.field_name)"], raises={'OtherException*': []},
    modifies=['f.*'], allocates=True, returns='dyn'))

add(Contract(
    'field:Ref._unpack_using_callable',
    params={'self': 'ref:Ref', 'pkt': 'ref:Packet', 'raw': 'bytes', 'offset': 'int', 'k': 'kw'},
    defaults={'offset': '0'},
    requires=["offset >= 0", "k.has_ipp"],
    ensures=["result >= 0", "g_sel_called",
             # exactly one of: the chosen field parsed under this reference's name at this position,
             # or the chosen packet was stored in this reference's slot and parsed at this position
             "g_field_parsed or g_pkt_parsed",
             # (a selector answering the enclosing packet itself is excluded: its own parse rewrites the slot)
             "implies(g_pkt_parsed and not same(g_sel, pkt), hasslot(pkt, self.field_name) and same(slot(pkt, self.field_name), g_sel))"],
    raises={'PacketError': [], 'AssertionError': ["not isinst(g_sel, 'Field') and not isinst(g_sel, 'Packet')"],
            'TypeError': ["not iscallable(self.prototype)"],
            'OtherException*': []},
    call_ghost={'prototype': 'g_sel'},
    ghost_init={'g_sel': 'None', 'g_sel_called': 'False', 'g_field_parsed': 'False', 'g_pkt_parsed': 'False',
                'g_named': 'False', 'g_inited': 'False'},
    ghost_kinds={'g_sel': 'dyn', 'g_sel_called': 'bool', 'g_field_parsed': 'bool', 'g_pkt_parsed': 'bool',
                 'g_named': 'bool', 'g_inited': 'bool'},
    call_asserts={
        'FIELD._compile': ["same(arg_f, g_sel)", "arg_f.field_name == self.field_name", "arg_position == self.position"],
        'FIELD.init': ["same(arg_f, g_sel)", "arg_f.field_name == self.field_name", "g_named", "same(arg_packet, pkt)"],
        'FIELD.unpack': ["same(arg_f, g_sel)", "arg_f.field_name == self.field_name", "g_named and g_inited",
                         "same(arg_pkt, pkt) and arg_raw == raw and arg_offset == offset"],
        'Packet.unpack_impl': ["same(arg_self, g_sel)", "arg_raw == raw and arg_offset == offset",
                                      "hasslot(pkt, self.field_name) and same(slot(pkt, self.field_name), g_sel)"],
    },
    call_effects={'FIELD._compile': {'g_named': 'True'}, 'FIELD.init': {'g_inited': 'True'},
                  'FIELD.unpack': {'g_field_parsed': 'True'}, 'Packet.unpack_impl': {'g_pkt_parsed': 'True'}},
    # the chosen object is written too (finding F3 of DESIGN.md: a selector handing out shared Field objects
    # makes this reference write into them)
    modifies=['slot(pkt, *)', "asref(cb(self.prototype, offset=offset, pkt=pkt, raw=raw, k=k), 'Field').*",
              "slot(asref(cb(self.prototype, offset=offset, pkt=pkt, raw=raw, k=k), 'Packet'), *)"],
    allocates=True, returns='int'))

add(Contract(
    'field:Ref._pack_with_callable',
    params={'self': 'ref:Ref', 'pkt': 'ref:Packet', 'fragments': 'ref:Fragments', 'k': 'kw'},
    requires=["WF(fragments)", "fragments.current_offset >= 0", "k.has_ipp", "hasslot(pkt, self.field_name)"],
    ensures=["WF(fragments)", "fragments.current_offset >= 0",
             # a packet value serialises itself; any other value is serialised by the field the selector
             # chooses, under this reference's name
             "g_pkt_packed == isinst(old(slot(pkt, self.field_name)), 'Packet')",
             "g_pkt_packed or g_field_packed"],
    raises={'PacketError': ["WF(fragments)"],
            'AssertionError': ["not iscallable(self.prototype)"],
            'NotImplementedError': ["not isinst(old(slot(pkt, self.field_name)), 'Packet')", "g_sel_called",
                                    "not isinst(g_sel, 'Field')"],
            'OtherException*': []},
    call_ghost={'prototype': 'g_sel'},
    ghost_init={'g_sel': 'None', 'g_sel_called': 'False', 'g_field_packed': 'False', 'g_pkt_packed': 'False',
                'g_named': 'False'},
    ghost_kinds={'g_sel': 'dyn', 'g_sel_called': 'bool', 'g_field_packed': 'bool', 'g_pkt_packed': 'bool', 'g_named': 'bool'},
    call_asserts={
        'FIELD._compile': ["same(arg_f, g_sel)", "arg_f.field_name == self.field_name", "arg_position == self.position"],
        'FIELD.pack': ["same(arg_f, g_sel)", "arg_f.field_name == self.field_name", "g_named",
                       "same(arg_pkt, pkt) and same(arg_fragments, fragments)"],
        'Packet.pack_impl': ["same(arg_self, old(slot(pkt, self.field_name)))", "same(arg_fragments, fragments)"],
    },
    call_effects={'FIELD._compile': {'g_named': 'True'}, 'FIELD.pack': {'g_field_packed': 'True'},
                  'Packet.pack_impl': {'g_pkt_packed': 'True'}},
    modifies=['slot(pkt, *)', "asref(cb(self.prototype, fragments=fragments, packing=True, pkt=pkt, k=k), 'Field').*",
              "slot(asref(slot(pkt, self.field_name), 'Packet'), *)"] + FRAG_MOD,
    allocates=True, returns='dyn'))

# ---------------------------------------------------------------- Ref.init (C19): the default of a reference
# what Prototype.__init__ establishes (its third postcondition)
define('ProtoWF(v)',
       "implies(isinst(v, 'Prototype'), asref(v, 'Prototype').clone == 'packet:Prototype._clone_from_pickle'"
       " or asref(v, 'Prototype').clone == 'packet:Prototype._clone_from_live_obj')")
add(Contract(
    'field:Ref.init',
    params={'self': 'ref:Ref', 'packet': 'ref:Packet', 'defaults': 'conf'},
    requires=["ProtoWF(self.prototype)", "ProtoWF(self.default)"],
    ensures=[
        "hasslot(packet, self.field_name)",
        "implies(self.field_name in old(defaults), same(slot(packet, self.field_name), old(defaults)[self.field_name]))",
        # a reference to a packet class (or a default given as a packet): every new packet gets its own
        # fresh copy of the prototype, sharing nothing mutable with the declaration or with other packets
        "implies(not (self.field_name in old(defaults)) and (isinst(self.prototype, 'Prototype') or isinst(self.default, 'Prototype')),"
        "        isprim(slot(packet, self.field_name)) or deep_fresh(slot(packet, self.field_name)))",
        # a reference with a run-time selector and a plain default object (e.g. a packet given as default=): like every
        # field, an immutable default is used as it is and anything else is copied - never shared between packets
        "implies(not (self.field_name in old(defaults)) and not isinst(self.prototype, 'Prototype') and not isinst(self.default, 'Prototype')"
        "        and (isint(self.default) or isnone(self.default) or isbytes(self.default)), same(slot(packet, self.field_name), self.default))",
        "implies(not (self.field_name in old(defaults)) and not isinst(self.prototype, 'Prototype') and not isinst(self.default, 'Prototype')"
        "        and not (isint(self.default) or isnone(self.default) or isbytes(self.default) or isstr(self.default)),"
        "        fresh_since(slot(packet, self.field_name)))",
    ],
    raises={'AssertionError': ["not isinst(self.prototype, 'Prototype') and not iscallable(self.prototype)"],
            'OtherException*': []},       # unpickling the prototype failed
    modifies=['slot(packet, self.field_name)'], allocates=True))

# ---------------------------------------------------------------- Bits.init (C19, C07): the run's shared integer starts at 0
add(Contract(
    'field:Bits.init',
    params={'self': 'ref:Bits', 'packet': 'ref:Packet', 'defaults': 'conf'},
    ensures=_init_posts + [
        "implies(not (self.field_name in defaults), same(slot(packet, self.field_name), self.default))",
        "implies(self.iam_first and self.I.field_name != self.field_name,"
        "        hasslot(packet, self.I.field_name) and isint(slot(packet, self.I.field_name))"
        "        and intval(slot(packet, self.I.field_name)) == 0)"],
    modifies=['slot(packet, self.field_name)', 'slot(packet, self.I.field_name)']))

# ---------------------------------------------------------------- how a declared field enters the field table (C10, C17)
_POSITIONING = dict(params={'self': 'ref:Field', 'position': 'dyn', 'reference': 'dyn'},
                    raises={'AssertionError': ["not (reference == 'innermost-pkt' or reference == 'begins' or reference == 'current-offset')"]},
                    modifies=['self.move_arg', 'self.reference', 'self.is_alignment'], returns='ref:Field')
add(Contract('field:Field.at', defaults={'reference': "'innermost-pkt'"},
             ensures=["same(result, self)", "same(self.move_arg, position)", "same(self.reference, reference)", "same(self.is_alignment, False)"],
             **_POSITIONING))
add(Contract('field:Field.aligned', params={'self': 'ref:Field', 'to': 'dyn', 'reference': 'dyn'}, defaults={'reference': "'begins'"},
             ensures=["same(result, self)", "same(self.move_arg, to)", "same(self.reference, reference)", "same(self.is_alignment, True)"],
             raises=_POSITIONING['raises'], modifies=_POSITIONING['modifies'], returns='ref:Field'))
add(Contract('field:Field.shift', params={'self': 'ref:Field', 'position': 'dyn'},
             ensures=["same(result, self)", "same(self.move_arg, position)", "same(self.reference, 'current-offset')", "same(self.is_alignment, False)"],
             modifies=_POSITIONING['modifies'], returns='ref:Field'))

add(Contract(
    'structural_fields:Move.__init__',
    params={'self': 'ref:Move', 'move_arg': 'dyn', 'reference': 'dyn', 'is_alignment': 'dyn'},
    ensures=["same(self.move_arg, move_arg)", "same(self.reference, reference)", "same(self.is_alignment, is_alignment)",
             "isnone(self.descriptor)", "not self.is_fixed"],
    modifies=['self.*']))

# Field._describe_yourself: the entries a declared field contributes to the field table.  The last entry is the field
# itself UNDER THE NAME IT STORES ITS VALUE IN (the hidden name "_described_<name>" for a described field, whose
# descriptor is told both names); a positioned / aligned field is preceded by its Move pseudo-field.
add(Contract(
    'field:Field._describe_yourself',
    params={'self': 'ref:Field', 'field_name': 'str', 'bisturi_conf': 'conf'},
    requires=["isnone(self.descriptor) or isinst(self.descriptor, 'Auto')"],
    ensures=[
        "len(result) == ite(isnone(self.move_arg), 1, 2)",
        # the table name of the field is the name of the slot the field reads and writes
        "istuple(result[len(result) - 1], 2) and tupitem(result[len(result) - 1], 2, 0) == self.field_name"
        " and same(tupitem(result[len(result) - 1], 2, 1), self)",
        "implies(isnone(self.descriptor), self.field_name == field_name)",
        "implies(not isnone(self.descriptor), self.field_name == strfmt('_described_%s', field_name)"
        "        and self.descriptor_name == field_name"
        "        and asref(self.descriptor, 'Auto').descriptor_name == field_name"
        "        and asref(self.descriptor, 'Auto').real_field_name == self.field_name)",
        # positioning: a Move pseudo-field with the declared target, reference and kind goes first
        "implies(not isnone(self.move_arg), istuple(result[0], 2) and isinst(tupitem(result[0], 2, 1), 'Move')"
        "        and fresh_since(tupitem(result[0], 2, 1))"
        "        and tupitem(result[0], 2, 0) == strfmt('_shift_to_%s', self.field_name)"
        "        and asref(tupitem(result[0], 2, 1), 'Move').field_name == strfmt('_shift_to_%s', self.field_name)"
        "        and same(asref(tupitem(result[0], 2, 1), 'Move').move_arg, self.move_arg)"
        "        and same(asref(tupitem(result[0], 2, 1), 'Move').reference, self.reference)"
        "        and same(asref(tupitem(result[0], 2, 1), 'Move').is_alignment, self.is_alignment))",
        # the class-wide 'align' option positions every field that is not positioned by itself
        "implies(isnone(old(self.move_arg)) and 'align' in bisturi_conf,"
        "        same(self.move_arg, bisturi_conf['align']) and same(self.reference, 'begins') and same(self.is_alignment, True))",
        "implies(not (isnone(old(self.move_arg)) and 'align' in bisturi_conf), same(self.move_arg, old(self.move_arg)))",
    ],
    modifies=['self.field_name', 'self.descriptor_name', 'self.move_arg', 'self.reference', 'self.is_alignment',
              "asref(self.descriptor, 'Auto').descriptor_name", "asref(self.descriptor, 'Auto').real_field_name"],
    allocates=True, returns='list'))

# ---------------------------------------------------------------- Data._compile (C06): which decoder a declaration gets
# the sizing mode chosen at declaration time selects exactly one of the five unpack bodies; the class option
# search_buffer_length (None or 0: no limit) is taken as it is - the window is not widened, narrowed or defaulted
add(Contract(
    'field:Data._compile',
    params={'self': 'ref:Data', 'position': 'int', 'fields': 'list', 'bisturi_conf': 'conf'},
    requires=["isnone(self.byte_count) == (not isnone(self.until_marker))"],
    ensures=[
        "implies(isint(old(self.byte_count)), self.unpack == 'field:Data._unpack_fixed_size'"
        "        and same(self.struct_code, strfmt('%is', self.byte_count)) and same(self.byte_count, old(self.byte_count)))",
        "implies(not isint(old(self.byte_count)) and isinst(old(self.byte_count), 'Field'), self.unpack == 'field:Data._unpack_variable_size_field')",
        "implies(not isnone(old(self.byte_count)) and not isint(old(self.byte_count)) and not isinst(old(self.byte_count), 'Field'),"
        "        self.unpack == 'field:Data._unpack_variable_size_callable' and iscallable(self.byte_count))",
        "implies(isbytes(self.until_marker), self.unpack == 'field:Data._unpack_with_string_marker')",
        "implies(not isnone(self.until_marker) and not isbytes(self.until_marker), self.unpack == 'field:Data._unpack_with_regexp_marker')",
        "implies(isnone(old(self.byte_count)), same(self._search_buffer_length, conf_get(bisturi_conf, 'search_buffer_length', None)))",
        "same(self.until_marker, old(self.until_marker))",
        "len(result) >= 1 and result[0] == self.field_name",
    ],
    raises={'AssertionError': [], 'TypeError': ["isnone(old(self.byte_count))"], 'OtherException*': []},
    modifies=['self.struct_code', 'self.unpack', 'self.byte_count', 'self._search_buffer_length'], allocates=True, returns='list'))

# ---------------------------------------------------------------- the default of a reference (C19, C13)
# a reference to a packet keeps a PRIVATE deep copy of the prototype object given at declaration time (later changes of
# the user's object do not leak into the class); a reference with a run-time selector needs an explicit default
add(Contract(
    'field:Ref._lets_find_a_nice_default',
    params={'self': 'ref:Ref', 'prototype': 'dyn', 'default': 'dyn'},
    requires=["implies(isinst(prototype, 'Packet'), allocated(prototype))"],
    ensures=[
        "implies(isinst(prototype, 'Packet') and not iscallable(prototype) and not isexpr(prototype),"
        "        isnone(default) and not same(self.default, prototype) and deep_fresh(self.default))",
        "implies(iscallable(prototype) or isexpr(prototype), not isnone(default) and same(self.default, default))",
    ],
    raises={'ValueError': ["((iscallable(prototype) or isexpr(prototype)) and isnone(default))"
                           " or (not (iscallable(prototype) or isexpr(prototype)) and isinst(prototype, 'Packet') and not isnone(default))"],
            'AssertionError': ["not iscallable(prototype) and not isexpr(prototype) and not isinst(prototype, 'Packet')"]},
    modifies=['self.default'], allocates=True))
