"""Contracts for bisturi/field.py: Field, Int (C05), Data (C06/C04), Bits (C07), Ref, Em."""
from pyvc.symex import Contract, LoopSpec
from pyvc.specev import define
from . import c_fragments  # noqa: F401  (WF, stored, occupied macros)

CONTRACTS = {}


def add(c):
    CONTRACTS[c.name] = c
    return c


# the chunk b is appended at the cursor: whole-view relation between old and new buffer
define('appended(fr, b)', "stored(fr, old(fr.current_offset), b) and WF(fr)")
FRAG_MOD = ['fragments.fragments{*}', 'fragments.begin_of_fragments[*]', 'fragments.current_offset',
            'fragments.ghost_idx{*}']

# ---------------------------------------------------------------- Field
add(Contract(
    'field:Field._compile_impl',
    params={'self': 'ref:Field', 'position': 'int', 'fields': 'list', 'bisturi_conf': 'conf'},
    ensures=["len(result) >= 1", "result[0] == self.field_name", "fresh_since(result)",
             "len(result) == ite(bool(self.descriptor), 2, 1)",
             "implies(bool(self.descriptor), result[1] == self.descriptor_name)"],
    modifies=[], allocates=True, returns='list'))

# ---------------------------------------------------------------- Int (C05)
define('struct_code_of(n, sg)',
       "ite(n == 1, ite(sg, 'b', 'B'), ite(n == 2, ite(sg, 'h', 'H'), ite(n == 4, ite(sg, 'i', 'I'), ite(sg, 'q', 'Q'))))")
define('is_big_spelling(e)', "e == 'big' or e == 'network' or (e == 'local' and sys_byteorder() == 'big')")
define('is_prim(n)', "n == 1 or n == 2 or n == 4 or n == 8")
# what Int._compile must establish (statement: big, little, network, local or class-default byte order)
define('IntCompiled(self)',
       "self.byte_count >= 1"
       " and implies(is_prim(self.byte_count),"
       "       self.struct_obj.size == self.byte_count and self.struct_obj.big == self.is_bigendian"
       "       and self.struct_obj.signed == self.is_signed"
       "       and self.struct_code == struct_code_of(self.byte_count, self.is_signed)"
       "       and self.pack == 'field:Int._pack_fixed_and_primitive_size'"
       "       and self.unpack == 'field:Int._unpack_fixed_and_primitive_size')"
       " and implies(not is_prim(self.byte_count),"
       "       isnone(self.struct_code) and self.base == pow2(8 * self.byte_count)"
       "       and self.pack == 'field:Int._pack_fixed_size' and self.unpack == 'field:Int._unpack_fixed_size')")
# what the primitive pair needs from the compiled state
define('IntPrim(self)',
       "self.byte_count >= 1 and self.struct_obj.size == self.byte_count"
       " and self.struct_obj.big == self.is_bigendian and self.struct_obj.signed == self.is_signed")

add(Contract(
    'field:Int._compile',
    params={'self': 'ref:Int', 'position': 'int', 'fields': 'list', 'bisturi_conf': 'conf'},
    requires=["self.byte_count >= 1"],
    ensures=[
        "IntCompiled(self)",
        # byte order: the declared spelling, or the class-level default when the field does not say
        "self.is_bigendian == is_big_spelling(ite(isnone(old(self.endianness)),"
        "     conf_get(bisturi_conf, 'endianness', 'big'), old(self.endianness)))",
        "self.byte_count == old(self.byte_count) and self.is_signed == old(self.is_signed)",
        "self.field_name == old(self.field_name)",
        "len(result) >= 1 and result[0] == self.field_name",
    ],
    modifies=['self.endianness', 'self.is_bigendian', 'self.struct_code', 'self.struct_obj', 'self.base',
              'self.pack', 'self.unpack'],
    allocates=True, returns='list'))

_int_decode = [
    # decoded from exactly n bytes, all of them inside the input (C04) ...
    "offset + self.byte_count <= len(raw)",
    "result == offset + self.byte_count",
    # ... to exactly the unsigned / two's-complement value of those bytes in that order (C05)
    "isint(slot(pkt, self.field_name)) and not isbool(slot(pkt, self.field_name))",
    "intval(slot(pkt, self.field_name)) =="
    " val(raw[offset:offset + self.byte_count], self.is_bigendian, self.is_signed)",
    "hasslot(pkt, self.field_name)",
]

add(Contract(
    'field:Int._unpack_fixed_and_primitive_size',
    params={'self': 'ref:Int', 'pkt': 'ref:Packet', 'raw': 'bytes', 'offset': 'int', 'k': 'kw'},
    requires=["IntPrim(self)", "offset >= 0"],
    ensures=_int_decode,
    raises={'StructError': ["offset + self.byte_count > len(raw)"]},
    modifies=['slot(pkt, self.field_name)'], returns='int'))

add(Contract(
    'field:Int._unpack_fixed_size',
    params={'self': 'ref:Int', 'pkt': 'ref:Packet', 'raw': 'bytes', 'offset': 'int', 'k': 'kw'},
    requires=["self.byte_count >= 1", "offset >= 0"],
    ensures=_int_decode,
    raises={'Exception': ["offset + self.byte_count > len(raw)"]},
    modifies=['slot(pkt, self.field_name)'], returns='int'))

_int_encode = [
    # only representable integers are encoded (no wrapping, truncating or padding) ...
    "isint(old(slot(pkt, self.field_name)))",
    "int_lo(self.byte_count, self.is_signed) <= intval(old(slot(pkt, self.field_name)))",
    "intval(old(slot(pkt, self.field_name))) <= int_hi(self.byte_count, self.is_signed)",
    # ... to exactly the n bytes that decode back to the value, appended at the cursor
    "appended(fragments, intbytes(intval(old(slot(pkt, self.field_name))), self.byte_count,"
    "                             self.is_bigendian, self.is_signed))",
    "len(intbytes(intval(old(slot(pkt, self.field_name))), self.byte_count, self.is_bigendian, self.is_signed))"
    " == self.byte_count",
    "val(intbytes(intval(old(slot(pkt, self.field_name))), self.byte_count, self.is_bigendian, self.is_signed),"
    "    self.is_bigendian, self.is_signed) == intval(old(slot(pkt, self.field_name)))",
    "result == fragments",
]
_int_encode_raises = {'Exception': ["unchanged(fragments)"]}

add(Contract(
    'field:Int._pack_fixed_and_primitive_size',
    params={'self': 'ref:Int', 'pkt': 'ref:Packet', 'fragments': 'ref:Fragments', 'k': 'kw'},
    requires=["IntPrim(self)", "WF(fragments)", "fragments.current_offset >= 0", "hasslot(pkt, self.field_name)"],
    ensures=_int_encode, raises=_int_encode_raises,
    modifies=FRAG_MOD, returns='ref:Fragments'))

add(Contract(
    'field:Int._pack_fixed_size',
    params={'self': 'ref:Int', 'pkt': 'ref:Packet', 'fragments': 'ref:Fragments', 'k': 'kw'},
    requires=["self.byte_count >= 1", "self.base == pow2(8 * self.byte_count)",
              "WF(fragments)", "fragments.current_offset >= 0", "hasslot(pkt, self.field_name)"],
    ensures=_int_encode, raises=_int_encode_raises,
    modifies=FRAG_MOD, returns='ref:Fragments'))
