"""C13: independence and observational purity, decided through frames and freshness.

Every function under contract already carries a `modifies` clause that is *checked* (frame
obligations): unpack/pack/init write only slots of their own packet argument, freshly allocated
objects and (pack) the fragments argument; field objects are written only by their compile step.
This module adds the stricter variants that C13 needs where the functional contracts of other
properties are (deliberately) more liberal, so that the deviations surface as named findings."""
from pyvc.symex import Contract, LoopSpec
from pyvc.specev import define
from . import c_field, c_packet, c_structural

CONTRACTS = {}


def add(c):
    CONTRACTS[c.name] = c
    return c


def _variant(base, name, **over):
    c = base
    kw = dict(params=c.params, requires=c.requires, ensures=c.ensures, raises=c.raises, modifies=c.modifies,
              allocates=c.allocates, loops=c.loops, returns=c.returns, axioms=c.axioms, ghost=c.ghost,
              known=dict(c.known), defaults=getattr(c, 'defaults', None), ghost_init=c.ghost_init, varkw=c.varkw,
              ghost_kinds=c.ghost_kinds, call_asserts=c.call_asserts, call_ghost=c.call_ghost,
              call_effects=c.call_effects, free_requires=c.free_requires, target=c.target)
    kw.update(over)
    return add(Contract(name, **kw))


# parsing must not write the (shared) field object: the regexp-delimited Data variant does (finding K13a)
_rx = c_field.CONTRACTS['field:Data._unpack_with_regexp_marker']
_variant(_rx, 'C13#field:Data._unpack_with_regexp_marker',
         modifies=['slot(pkt, self.field_name)'],
         known={'frame: Data.delimiter_to_be_included unchanged outside modifies':
                dict(id='K13a', case="rx_pattern(self.until_marker) != b'$' and not self.include_delimiter")})

# serialising leaves every field value unchanged (scratch slots may change): pack_impl with the purity clause
define('TableDisjoint(self)',
       # WFClass (assumed): the name of a table entry is its field's name, and no other entry owns that slot
       "forall(0, FT(self), lambda i: ft_field(class_of(self), i).field_name == FN(self, i)"
       "       and allocated(ft_field(class_of(self), i)))"
       " and forall(lambda i, j: implies(0 <= i and i < FT(self) and 0 <= j and j < FT(self) and i != j,"
       "       not owns(ft_field(class_of(self), j), FN(self, i))),"
       "       pat=lambda i, j: (ft_field(class_of(self), i), ft_field(class_of(self), j)))")
define('values_kept(self, upto)',
       "forall(0, upto, lambda i: hasslot(self, FN(self, i)) == old(hasslot(self, FN(self, i)))"
       "       and same(slot(self, FN(self, i)), old(slot(self, FN(self, i)))))")
_pi = c_packet.CONTRACTS['packet:Packet.pack_impl']
_loops = {0: LoopSpec(_pi.loops[0].invariants + ["implies(sync_len_pack(class_of(self)) == 0, unchanged_slots(self))"],
                      ghost=_pi.loops[0].ghost, ghost_havoc=_pi.loops[0].ghost_havoc),
          1: LoopSpec(_pi.loops[1].invariants + ["implies(sync_len_pack(class_of(self)) == 0, values_kept(self, FT(self)))"],
                      ghost=_pi.loops[1].ghost, ghost_havoc=_pi.loops[1].ghost_havoc)}
_variant(_pi, 'C13#packet:Packet.pack_impl',
         free_requires=["TableDisjoint(self)"],
         ensures=_pi.ensures + [
             # K13c: for a described field (Auto/AutoLength) the table entry is the hidden slot, which
             # sync_before_pack rewrites - the clause is proved for classes without sync hooks
             "values_kept(self, FT(self))"],
         loops=_loops,
         known=dict(_pi.known, **{'post#%d' % len(_pi.ensures):
                                  dict(id='K13c', case="sync_len_pack(class_of(self)) > 0")}))

# a reference with a run-time selector must not write the (possibly shared) field object its selector hands out:
# it does (finding K13b = F3 of DESIGN.md: the chosen field is renamed after this reference on every parse, so two
# references - of one class or of two classes, in two threads or re-entrantly - that are handed the same Field
# object parse into each other's attribute)
_SELU = "cb(self.prototype, offset=offset, pkt=pkt, raw=raw, k=k)"
_ru = c_field.CONTRACTS['field:Ref._unpack_using_callable']
_variant(_ru, 'C13#field:Ref._unpack_using_callable',
         ensures=_ru.ensures + [
             "implies(isinst(old(%s), 'Field'), asref(old(%s), 'Field').field_name == old(asref(%s, 'Field').field_name))"
             % (_SELU, _SELU, _SELU)],
         known=dict(_ru.known, **{'post#%d' % len(_ru.ensures):
                                  dict(id='K13b', case="isinst(old(%s), 'Field')" % _SELU)}))
