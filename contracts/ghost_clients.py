"""Ghost clients: tiny programs that call the REAL functions of /repo one after the other.

They are not models of repository code: the VC generator executes each client modularly, i.e. every
call is replaced by the callee's *contract* (proved against the real body elsewhere), so a client's
postcondition is a lemma over those contracts - "the round trip is a two-line lemma over the two
contracts".  Clients are never executed.
"""


# ---------------------------------------------------------------- C01: parse, then serialise
def rt1_int_prim(self, pkt, raw, offset, fragments, **k):
    end = self._unpack_fixed_and_primitive_size(pkt, raw, offset, **k)
    self._pack_fixed_and_primitive_size(pkt, fragments, **k)
    return end


def rt1_int_any(self, pkt, raw, offset, fragments, **k):
    end = self._unpack_fixed_size(pkt, raw, offset, **k)
    self._pack_fixed_size(pkt, fragments, **k)
    return end


def rt1_data_fixed(self, pkt, raw, offset, fragments, **k):
    end = self._unpack_fixed_size(pkt, raw, offset, **k)
    self.pack(pkt, fragments, **k)
    return end


def rt1_data_field(self, pkt, raw, offset, fragments, **k):
    end = self._unpack_variable_size_field(pkt, raw, offset, **k)
    self.pack(pkt, fragments, **k)
    return end


def rt1_data_callable(self, pkt, raw, offset, fragments, **k):
    end = self._unpack_variable_size_callable(pkt, raw, offset, **k)
    self.pack(pkt, fragments, **k)
    return end


def rt1_data_marker(self, pkt, raw, offset, fragments, **k):
    end = self._unpack_with_string_marker(pkt, raw, offset, **k)
    self.pack(pkt, fragments, **k)
    return end


def rt1_data_regex(self, pkt, raw, offset, fragments, **k):
    end = self._unpack_with_regexp_marker(pkt, raw, offset, **k)
    self.pack(pkt, fragments, **k)
    return end


def rt1_bits_member(self, pkt, raw, offset, fragments, **k):
    end = self.unpack(pkt, raw, offset, **k)
    self.pack(pkt, fragments, **k)
    return end


# ---------------------------------------------------------------- C02: serialise, then parse
def rt2_int_prim(self, pkt, raw, fragments, **k):
    start = fragments.current_offset
    self._pack_fixed_and_primitive_size(pkt, fragments, **k)
    return self._unpack_fixed_and_primitive_size(pkt, raw, start, **k)


def rt2_int_any(self, pkt, raw, fragments, **k):
    start = fragments.current_offset
    self._pack_fixed_size(pkt, fragments, **k)
    return self._unpack_fixed_size(pkt, raw, start, **k)


def rt2_data_fixed(self, pkt, raw, fragments, **k):
    start = fragments.current_offset
    self.pack(pkt, fragments, **k)
    return self._unpack_fixed_size(pkt, raw, start, **k)


def rt2_data_marker(self, pkt, raw, fragments, **k):
    start = fragments.current_offset
    self.pack(pkt, fragments, **k)
    return self._unpack_with_string_marker(pkt, raw, start, **k)


# ---------------------------------------------------------------- C14: parsing is local
def loc_int_prim(self, pkt, pkt2, raw, big, offset, shift, **k):
    end = self._unpack_fixed_and_primitive_size(pkt, raw, offset, **k)
    end2 = self._unpack_fixed_and_primitive_size(pkt2, big, shift + offset, **k)
    return end2 - end


def loc_int_any(self, pkt, pkt2, raw, big, offset, shift, **k):
    end = self._unpack_fixed_size(pkt, raw, offset, **k)
    end2 = self._unpack_fixed_size(pkt2, big, shift + offset, **k)
    return end2 - end


def loc_data_fixed(self, pkt, pkt2, raw, big, offset, shift, **k):
    end = self._unpack_fixed_size(pkt, raw, offset, **k)
    end2 = self._unpack_fixed_size(pkt2, big, shift + offset, **k)
    return end2 - end


def loc_data_marker(self, pkt, pkt2, raw, big, offset, shift, **k):
    end = self._unpack_with_string_marker(pkt, raw, offset, **k)
    end2 = self._unpack_with_string_marker(pkt2, big, shift + offset, **k)
    return end2 - end


def rt1_move(self, pkt, raw, offset, fragments, base, **k):
    end = self.unpack(pkt, raw, offset, **k)
    k['innermost-pkt-pos'] = k['innermost-pkt-pos'] - base      # positions relative to the start of the parse
    self.pack(pkt, fragments, **k)
    return end


# ---------------------------------------------------------------- C07: what Bits._compile establishes is what unpack/pack need
def bits_compile_establishes_wf(self, position, fields, bisturi_conf, j):
    return self._compile(position, fields, bisturi_conf)
