"""Schema of the heap objects the contracts talk about: attribute names and storage kinds
of the bisturi classes (derived from the __init__/_compile bodies in /repo/bisturi)."""

FIELD_ATTRS = {
    'is_fixed': 'bool', 'struct_code': 'dyn', 'is_bigendian': 'bool',
    'move_arg': 'dyn', 'reference': 'dyn', 'is_alignment': 'dyn',
    'descriptor': 'dyn', 'descriptor_name': 'dyn', 'field_name': 'str', 'default': 'dyn',
}

CLASSES = {
    'Packet': dict(module='packet', bases=[], attrs={}),
    'PacketError': dict(module='packet', bases=[], attrs={
        'was_error_found_in_unpacking_phase': 'bool', 'fields_stack': 'list',
        'original_error_message': 'dyn', 'original_traceback': 'str', 'packet': 'dyn'}),
    'Fragments': dict(module='fragments', bases=[], attrs={
        'fragments': 'dict:int:bytes', 'begin_of_fragments': 'list', 'current_offset': 'int', 'fill': 'bytes',
        'ghost_idx': 'dict:int:int'}),     # ghost: position -> an index of it in begin_of_fragments
    # regular-expression pre-filter (C18): one regexp piece per stored chunk
    'FragmentsOfRegexps': dict(module='fragments', bases=['Fragments'], attrs={'regexp_by_position': 'dict:int:bytes'}),
    'Any': dict(module='pattern_matching', bases=[], attrs={'regexp': 'dyn'}),
    'Field': dict(module='field', bases=[], attrs=FIELD_ATTRS),
    'Move': dict(module='structural_fields', bases=['Field'], attrs={}),
    'Int': dict(module='field', bases=['Field'], attrs={
        'byte_count': 'int', 'endianness': 'dyn', 'is_signed': 'bool', 'struct_obj': 'struct', 'base': 'int',
        'pack': 'meth', 'unpack': 'meth'},
        methsel={'pack': ['field:Int._pack_fixed_and_primitive_size', 'field:Int._pack_fixed_size'],
                 'unpack': ['field:Int._unpack_fixed_and_primitive_size', 'field:Int._unpack_fixed_size']}),
    'Data': dict(module='field', bases=['Field'], attrs={
        'byte_count': 'dyn', 'until_marker': 'dyn', 'include_delimiter': 'bool',
        'delimiter_to_be_included': 'bytes', 'consume_delimiter': 'bool',
        '_search_buffer_length': 'dyn', 'unpack': 'meth'},
        methsel={'unpack': ['field:Data._unpack_fixed_size', 'field:Data._unpack_variable_size_field',
                            'field:Data._unpack_variable_size_callable', 'field:Data._unpack_with_string_marker',
                            'field:Data._unpack_with_regexp_marker']}),
    'UnaryExpr': dict(module='deferred', bases=[], attrs={'arg': 'dyn', 'op': 'dyn'}),
    'BinaryExpr': dict(module='deferred', bases=[], attrs={'left': 'dyn', 'right': 'dyn', 'op': 'dyn'}),
    'NaryExpr': dict(module='deferred', bases=[], attrs={'left': 'dyn', 'arglist': 'dyn', 'argmapping': 'dyn', 'op': 'dyn'}),
    'Operations': dict(module='deferred', bases=[], attrs={'ops': 'list'}),
    'Bits': dict(module='field', bases=['Field'], attrs={
        'mask': 'int', 'bit_count': 'int', 'iam_first': 'bool', 'iam_last': 'bool',
        'shift': 'int', 'I': 'ref:Int', 'members': 'list',
        'ghost_w': 'int'},      # ghost: the declared width (bit_count is deleted by _compile)
        optional=['bit_count']),
    'Ref': dict(module='field', bases=['Field'], attrs={
        'prototype': 'dyn', 'embed': 'bool', 'position': 'int', 'proto_class': 'cls'}),
    'Em': dict(module='field', bases=['Field'], attrs={}),
    'Sequence': dict(module='structural_fields', bases=['Field'], attrs={
        'prototype_field': 'ref:Field', 'aligned_to': 'dyn', 'seq_elem_field_name': 'str',
        'when': 'dyn', 'get_how_many_elements': 'dyn', 'until_condition': 'dyn', 'tmp': 'dyn'}, optional=['tmp']),
    'Optional': dict(module='structural_fields', bases=['Field'], attrs={
        'prototype_field': 'ref:Field', 'opt_elem_field_name': 'str', 'when': 'dyn', 'tmp': 'dyn'}, optional=['tmp']),
    'Prototype': dict(module='packet', bases=[], attrs={'template': 'dyn', 'clone': 'meth'},
                      methsel={'clone': ['packet:Prototype._clone_from_pickle', 'packet:Prototype._clone_from_live_obj']}),
    # code cache (C15): the generator object, the class object being built, module objects of the import system
    'PacketClassBuilder': dict(module='packet_builder', bases=[], attrs={
        'fields': 'list', 'fields_in_class': 'list', 'sync_before_pack_methods': 'list', 'sync_after_unpack_methods': 'list'}),
    'CodeGenerator': dict(module='codegen', bases=[], attrs={
        'pkt_class': 'ref:PktClass', 'generate_for_pack': 'bool', 'generate_for_unpack': 'bool'}),
    'PktClass': dict(module='packet', bases=[], attrs={'pack_impl': 'dyn', 'unpack_impl': 'dyn', '__name__': 'str'}),
    'Module': dict(module='importlib', bases=[], attrs={}),
    'Auto': dict(module='descriptor', bases=[], attrs={
        'func': 'dyn', 'iam_enabled_attr_name': 'str', 'real_field_name': 'str', 'descriptor_name': 'str'}),
    'AutoLength': dict(module='descriptor', bases=['Auto'], attrs={'length_of': 'str'}),
}

DISJOINT = [('Auto', 'Field'), ('Auto', 'Packet'), ('Any', 'Field'), ('Any', 'Packet'), ('Any', 'Fragments'),
            ('Module', 'PktClass'), ('Module', 'CodeGenerator'), ('PktClass', 'CodeGenerator'), ('Module', 'Packet'), ('Module', 'Field'),
            ('Field', 'Packet'), ('Field', 'Fragments'), ('Packet', 'Fragments'),
            ('Int', 'Data'), ('Int', 'Bits'), ('Data', 'Bits'), ('Field', 'PacketError'),
            ('Packet', 'PacketError'), ('Field', 'UnaryExpr'), ('Field', 'BinaryExpr'), ('Field', 'NaryExpr')]
