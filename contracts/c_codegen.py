"""C15: a class behaves per its current declaration whatever the generated-code cache holds.

Under contract: the TAIL of codegen:CodeGenerator.generate_code - everything after the two code strings
have been produced: cookie, path of the cache module, load / compare / remove stale bytecode / write /
reload / install.  The body is cut mechanically on every run after the last top-level statement that
assigns `unpack_code` (pyvc Contract.body_after_assign); pack_code, unpack_code and import_code are
arbitrary strings subject to the shape facts of the dropped prefix stated below.  The operating system
and the import system are assumed contracts over ghost state (pyvc/envmodel.py).

History quantifier: the statement ranges over histories of definitions; every such history leaves the
cache directory, the bytecode cache and sys.modules in a state satisfying HonestCache (every file and
every cached bytecode was written by an earlier, completed run of this very function - for ANY
declaration), HonestCache is an inductive invariant (first postcondition) and under it each single
definition installs the code of its own declaration (the other postconditions).  So the obligation is
per call, for all initial states - no history is enumerated."""
from pyvc.symex import Contract
from pyvc.specev import define

CONTRACTS = {}


def add(c):
    CONTRACTS[c.name] = c
    return c


# every file / cached bytecode was rendered by this function for SOME declaration (any code strings),
# with the cookie of ITS OWN code strings; bytecode exists only for existing sources
# a file this code tolerates although it did not write it: it imports and defines nothing (an empty file, a module of
# an older version that carried no cookie is treated the same way as long as it defines none of the three names)
define('blank(c)', "exec_outcome(c) == 0 and not defines(c, 'BISTURI_PACKET_COOKIE') and not defines(c, 'pack_impl')"
                   " and not defines(c, 'unpack_impl') and not defines(c, '__cached__')")
define('tolerable(c)', "honest(c) or blank(c)")
# a module object of this process: whatever sequence of tolerable texts was executed into it, its cookie (if any) is
# the cookie of the LAST honest text, which defined the functions for the directions it was generated for
define('NSInv(m)',
       "implies(hasslot(m, 'BISTURI_PACKET_COOKIE'),"
       "  isstr(slot(m, 'BISTURI_PACKET_COOKIE'))"
       "  and strval(slot(m, 'BISTURI_PACKET_COOKIE')) == cookie_of(cookie_pack_code(strval(slot(m, 'BISTURI_PACKET_COOKIE'))),"
       "                                                            cookie_unpack_code(strval(slot(m, 'BISTURI_PACKET_COOKIE'))))"
       "  and implies(cookie_pack_code(strval(slot(m, 'BISTURI_PACKET_COOKIE'))) != '', hasslot(m, 'pack_impl')"
       "              and same(slot(m, 'pack_impl'), codefn('pack', cookie_pack_code(strval(slot(m, 'BISTURI_PACKET_COOKIE'))))))"
       "  and implies(cookie_unpack_code(strval(slot(m, 'BISTURI_PACKET_COOKIE'))) != '', hasslot(m, 'unpack_impl')"
       "              and same(slot(m, 'unpack_impl'), codefn('unpack', cookie_unpack_code(strval(slot(m, 'BISTURI_PACKET_COOKIE')))))))")
define('ModulesOK()', "forall(lambda n_s: implies(mod_loaded(n_s), NSInv(mod_ref(n_s))), pat=lambda n_s: mod_ref(n_s))")
define('HonestCache()',
       # (temporary files - names handed out by tempfile - are nobody's cache module)
       "forall(lambda p_s: implies(fs_exists(p_s) and not is_tmp(p_s), tolerable(fs_content(p_s))), pat=lambda p_s: fs_content(p_s))"
       " and forall(lambda p_s: implies(pyc_exists(p_s) and not is_tmp(p_s), fs_exists(p_s)), pat=lambda p_s: pyc_exists(p_s))"
       " and forall(lambda p_s: implies(pyc_exists(p_s) and not is_tmp(p_s), tolerable(pyc_code(p_s))), pat=lambda p_s: pyc_code(p_s))")

# what executing a rendered module defines (ASSUMED about the text the dropped prefix generates: it compiles,
# it defines the cookie, pack_impl iff pack code was generated, unpack_impl iff unpack code was generated -
# that the functions behave like the generic drivers is C03)
_RENDER_AXIOMS = [
    "forall(lambda i_s, k_s, p_s, u_s: exec_outcome(rendered(i_s, cookie_line(k_s), p_s, u_s)) == 0"
    "   and defines(rendered(i_s, cookie_line(k_s), p_s, u_s), 'BISTURI_PACKET_COOKIE')"
    "   and same(defval(rendered(i_s, cookie_line(k_s), p_s, u_s), 'BISTURI_PACKET_COOKIE'), k_s)"
    "   and defines(rendered(i_s, cookie_line(k_s), p_s, u_s), 'pack_impl') == (p_s != '')"
    "   and defines(rendered(i_s, cookie_line(k_s), p_s, u_s), 'unpack_impl') == (u_s != '')"
    "   and same(defval(rendered(i_s, cookie_line(k_s), p_s, u_s), 'pack_impl'), codefn('pack', p_s))"
    "   and same(defval(rendered(i_s, cookie_line(k_s), p_s, u_s), 'unpack_impl'), codefn('unpack', u_s))"
    "   and not defines(rendered(i_s, cookie_line(k_s), p_s, u_s), '__cached__'),"
    "   pat=lambda i_s, k_s, p_s, u_s: rendered(i_s, cookie_line(k_s), p_s, u_s))",
    # honest_* are the components of a rendering (definition of the projections)
    "forall(lambda i_s, k_s, p_s, u_s: honest_import_code(rendered(i_s, k_s, p_s, u_s)) == i_s"
    "   and honest_pack_code(rendered(i_s, k_s, p_s, u_s)) == p_s and honest_unpack_code(rendered(i_s, k_s, p_s, u_s)) == u_s,"
    "   pat=lambda i_s, k_s, p_s, u_s: rendered(i_s, k_s, p_s, u_s))",
]

add(Contract(
    'codegen:CodeGenerator.generate_code',
    params={'self': 'ref:CodeGenerator'},
    locals_in={'pack_code': 'str', 'unpack_code': 'str', 'import_code': 'str'},
    body_after_assign='unpack_code', env=True,
    prefix_checks=[
        ('guard', 'if not self.generate_for_pack and (not self.generate_for_unpack):\n    return'),
        ('const-string', 'import_code'),      # the module header is the same for every declaration (it is not hashed)
        ('flag-string', 'self.generate_for_pack', 'pack_code', 'def pack_impl('),
        ('flag-string', 'self.generate_for_unpack', 'unpack_code', 'def unpack_impl('),
    ],
    requires=[
        # established by the dropped prefix (syntactic check of the prefix: obligation 'prefix-shape')
        "self.generate_for_pack or self.generate_for_unpack",
        "(pack_code != '') == self.generate_for_pack",
        "(unpack_code != '') == self.generate_for_unpack",
        "HonestCache()", "ModulesOK()",
        # the class attributes hold plain functions (compared by identity)
        "isfunction(self.pkt_class.pack_impl) and isfunction(self.pkt_class.unpack_impl)",
    ],
    free_requires=_RENDER_AXIOMS,
    ensures=[
        # (1) the cache stays honest: inductive invariant over histories of definitions
        "HonestCache()", "ModulesOK()",
        # (2) the class runs the code generated NOW for the directions that are switched on (unless the user
        #     overrode the method in the class), whatever the cache held - or keeps the generic drivers, which
        #     follow the declaration by construction (the statement is about behaviour, not about speed)
        "implies(self.generate_for_pack and same(old(self.pkt_class.pack_impl), generic_pack()),"
        "        same(self.pkt_class.pack_impl, codefn('pack', pack_code)) or same(self.pkt_class.pack_impl, generic_pack()))",
        "implies(self.generate_for_unpack and same(old(self.pkt_class.unpack_impl), generic_unpack()),"
        "        same(self.pkt_class.unpack_impl, codefn('unpack', unpack_code)) or same(self.pkt_class.unpack_impl, generic_unpack()))",
        # (3) and nothing is installed for a direction that is switched off or overridden
        "implies(not (self.generate_for_pack and same(old(self.pkt_class.pack_impl), generic_pack())),"
        "        same(self.pkt_class.pack_impl, old(self.pkt_class.pack_impl)))",
        "implies(not (self.generate_for_unpack and same(old(self.pkt_class.unpack_impl), generic_unpack())),"
        "        same(self.pkt_class.unpack_impl, old(self.pkt_class.unpack_impl)))",
    ],
    # no exception: a definition always succeeds under HonestCache
    raises={},
    modifies=['self.pkt_class.pack_impl', 'self.pkt_class.unpack_impl', 'slot(any:Module, *)'], allocates=True, returns='none'))


# ---------------------------------------------------------------- C16: crashes and concurrent definitions
# Same function, same environment contracts, two more things (DESIGN.md 4.C16):
#  * crash points: the process may die after ANY operation on the file system; the cache must then still be
#    honest (no torn module under a module name), so that every later definition is in the situation of C15;
#  * rely/guarantee: before every operation other processes may have changed the cache in any way the same
#    code can (replace a module by an honest one for another declaration, remove or write bytecode);
#    the class must still get the code of ITS OWN declaration - or keep the generic drivers, which follow the
#    declaration by construction - and the definition must not fail.
_c15 = CONTRACTS['codegen:CodeGenerator.generate_code']
add(Contract(
    'C16#codegen:CodeGenerator.generate_code', target=_c15.target,
    params=_c15.params, locals_in=_c15.locals_in, body_after_assign=_c15.body_after_assign, env=True,
    prefix_checks=_c15.prefix_checks,
    requires=_c15.requires, free_requires=_c15.free_requires,
    crash_invariant="HonestCache()", rely="HonestCache()",
    ensures=list(_c15.ensures),
    raises={},
    modifies=_c15.modifies, allocates=True, returns='none'))
