"""C01 / C02 / C14 at the level of field kinds: lemmas over the proved contracts, carried by the ghost
clients of contracts/ghost_clients.py (each call is replaced by the callee's contract)."""
from pyvc.symex import Contract, LoopSpec
from pyvc.specev import define
from . import c_fragments, c_field  # noqa: F401

CONTRACTS = {}


def add(c):
    CONTRACTS[c.name] = c
    return c


FRAG_MOD = ['fragments.fragments{*}', 'fragments.begin_of_fragments[*]', 'fragments.current_offset',
            'fragments.ghost_idx{*}']
_P1 = {'self': None, 'pkt': 'ref:Packet', 'raw': 'bytes', 'offset': 'int', 'fragments': 'ref:Fragments', 'k': 'kw'}
_BUF = ["WF(fragments)", "fragments.current_offset >= 0", "offset >= 0"]
# parse-then-serialise: exactly the consumed bytes raw[offset:end] are re-emitted at the cursor
_RT1 = ["appended(fragments, raw[offset:result])", "offset <= result and (result == offset or result <= len(raw))"]


def _p1(cls):
    d = dict(_P1)
    d['self'] = 'ref:' + cls
    return d


def rt1(name, cls, requires, extra_raises=()):
    raises = {'Exception*': []}         # a failing parse, or a collision in the buffer
    raises.update({e: [] for e in extra_raises})
    add(Contract('ghost_clients:' + name, params=_p1(cls), requires=_BUF + requires, ensures=_RT1, raises=raises,
                 modifies=['slot(pkt, *)'] + FRAG_MOD + (['self.delimiter_to_be_included'] if 'regex' in name else []),
                 returns='int'))


rt1('rt1_int_prim', 'Int', ["IntPrim(self)"])
rt1('rt1_int_any', 'Int', ["self.byte_count >= 1", "self.base == pow2(8 * self.byte_count)"])
rt1('rt1_data_fixed', 'Data', ["self.delimiter_to_be_included == b''"])
rt1('rt1_data_field', 'Data', ["self.delimiter_to_be_included == b''", "isinst(self.byte_count, 'Field')",
                               "hasslot(pkt, asref(self.byte_count, 'Field').field_name)"])
rt1('rt1_data_callable', 'Data', ["self.delimiter_to_be_included == b''", "iscallable(self.byte_count)"])
# delimited by bytes: excluded by the statement only when the delimiter is not consumed
rt1('rt1_data_marker', 'Data', ["isbytes(self.until_marker)", "len(MK(self)) > 0", "DataDelimWF(self)",
                                "self.delimiter_to_be_included == ite(self.include_delimiter, b'', MK(self))",
                                "self.consume_delimiter"])
# delimited by a regex: only with the delimiter kept in the value (or read-to-end)
rt1('rt1_data_regex', 'Data', ["isregex(self.until_marker)", "DataDelimWF(self)", "self.delimiter_to_be_included == b''",
                               "self.include_delimiter or rx_pattern(self.until_marker) == b'$'", "offset <= len(raw)"])

# a bit field: unpack-then-pack of a member leaves the shared integer as parsed (so the last member
# re-emits the run's bytes); uses the slice algebra of lemma C07.pack_merge in the form of lemma C01.bits_identity
add(Contract('ghost_clients:rt1_bits_member', params=_p1('Bits'),
             requires=_BUF + ["BitsWF(self)",
                              "implies(not self.iam_first, hasslot(pkt, self.I.field_name) and isint(slot(pkt, self.I.field_name)))"],
             free_requires=[
                 # lemma C01.bits_identity (proved in contracts/lemmas.py from the mask-shaped facts A1-A3)
                 "forall(lambda x: bor(band(lshift(rshift(band(x, self.mask), self.shift), self.shift), self.mask),"
                 "                    band(x, bnot(self.mask))) == x,"
                 "       pat=lambda x: band(x, bnot(self.mask)))"],
             ensures=["implies(not self.iam_first, intval(slot(pkt, self.I.field_name)) == intval(old(slot(pkt, self.I.field_name))))",
                      "implies(self.iam_first, intval(slot(pkt, self.I.field_name)) == val(raw[offset:offset + self.I.byte_count], True, False))",
                      "implies(self.iam_first and self.iam_last, appended(fragments, raw[offset:result]))"],
             raises={'Exception*': []}, modifies=['slot(pkt, *)'] + FRAG_MOD, returns='int'))

# ---------------------------------------------------------------- C02: serialise, then parse
_P2 = {'self': None, 'pkt': 'ref:Packet', 'raw': 'bytes', 'fragments': 'ref:Fragments', 'k': 'kw'}
define('CUR(fragments)', "fragments.current_offset")


def _p2(cls):
    d = dict(_P2)
    d['self'] = 'ref:' + cls
    return d


_int_consistent = [
    # the value satisfies the declaration, and raw carries the emitted bytes at the cursor position
    "hasslot(pkt, self.field_name) and isint(slot(pkt, self.field_name))",
    "int_lo(self.byte_count, self.is_signed) <= intval(slot(pkt, self.field_name))",
    "intval(slot(pkt, self.field_name)) <= int_hi(self.byte_count, self.is_signed)",
    "CUR(fragments) + self.byte_count <= len(raw)",
    "raw[CUR(fragments):CUR(fragments) + self.byte_count] =="
    " intbytes(intval(slot(pkt, self.field_name)), self.byte_count, self.is_bigendian, self.is_signed)",
]
_int_rt2 = ["intval(slot(pkt, self.field_name)) == intval(old(slot(pkt, self.field_name)))",
            "result == old(CUR(fragments)) + self.byte_count and result == CUR(fragments)"]
add(Contract('ghost_clients:rt2_int_prim', params=_p2('Int'),
             requires=["WF(fragments)", "CUR(fragments) >= 0", "IntPrim(self)"] + _int_consistent,
             ensures=_int_rt2, raises={'Exception': ["unchanged(fragments)"]},
             modifies=['slot(pkt, self.field_name)'] + FRAG_MOD, returns='int'))
add(Contract('ghost_clients:rt2_int_any', params=_p2('Int'),
             requires=["WF(fragments)", "CUR(fragments) >= 0", "self.byte_count >= 1",
                       "self.base == pow2(8 * self.byte_count)"] + _int_consistent,
             ensures=_int_rt2, raises={'Exception': ["unchanged(fragments)"]},
             modifies=['slot(pkt, self.field_name)'] + FRAG_MOD, returns='int'))
add(Contract('ghost_clients:rt2_data_fixed', params=_p2('Data'),
             requires=["WF(fragments)", "CUR(fragments) >= 0", "self.delimiter_to_be_included == b''",
                       "isint(self.byte_count) and not isbool(self.byte_count)",
                       "hasslot(pkt, self.field_name) and isbytes(slot(pkt, self.field_name))",
                       "len(bytesval(slot(pkt, self.field_name))) == intval(self.byte_count)",
                       "CUR(fragments) + intval(self.byte_count) <= len(raw)",
                       "raw[CUR(fragments):CUR(fragments) + intval(self.byte_count)] == bytesval(slot(pkt, self.field_name))"],
             ensures=["bytesval(slot(pkt, self.field_name)) == bytesval(old(slot(pkt, self.field_name)))",
                      "result == old(CUR(fragments)) + intval(self.byte_count) and result == CUR(fragments)"],
             raises={'Exception': ["unchanged(fragments)"]},
             modifies=['slot(pkt, self.field_name)'] + FRAG_MOD, returns='int'))

# ---------------------------------------------------------------- C14: parsing depends only on the consumed bytes
_P3 = {'self': None, 'pkt': 'ref:Packet', 'pkt2': 'ref:Packet', 'raw': 'bytes', 'big': 'bytes', 'offset': 'int',
       'shift': 'int', 'k': 'kw'}


def _p3(cls):
    d = dict(_P3)
    d['self'] = 'ref:' + cls
    return d


# big = pre ++ raw ++ post with |pre| = shift: stated pointwise (no string concatenation needed)
_EMBED = ["offset >= 0", "shift >= 0", "shift + len(raw) <= len(big)", "pkt != pkt2",
          "forall(0, len(raw), lambda i: big[shift + i] == raw[i])"]
_SAME_SLICE = "big[shift + offset:shift + offset + %s] == raw[offset:offset + %s]"
for nm, cls, req, n_, val_ in (
        ('loc_int_prim', 'Int', ["IntPrim(self)"], 'self.byte_count', 'intval'),
        ('loc_int_any', 'Int', ["self.byte_count >= 1"], 'self.byte_count', 'intval'),
        ('loc_data_fixed', 'Data', ["isint(self.byte_count) and not isbool(self.byte_count)"], 'intval(self.byte_count)', 'bytesval')):
    add(Contract('ghost_clients:' + nm, params=_p3(cls), requires=_EMBED + req,
                 ensures=[
                     # the end offset is shifted by exactly the prefix length ...
                     "result == shift",
                     # ... and the same value is parsed (lemma instance: the embedded slice IS the plain slice)
                     "using(implies(offset + %(n)s <= len(raw), %(eq)s),"
                     "      %(v)s(slot(pkt2, self.field_name)) == %(v)s(slot(pkt, self.field_name)))"
                     % dict(n=n_, eq=_SAME_SLICE % (n_, n_), v=val_)],
                 # if the embedded parse fails the plain one has failed before (or the input was short)
                 raises={'Exception*': []}, modifies=['slot(pkt, *)', 'slot(pkt2, *)'], returns='int'))

# positioning: the cursor of the serialiser follows the offset of the parser (relative to the start `base`
# of the parse), so consumed bytes land at the same relative position and skipped bytes stay holes ('.')
add(Contract('ghost_clients:rt1_move',
             params={'self': 'ref:Move', 'pkt': 'ref:Packet', 'raw': 'bytes', 'offset': 'int',
                     'fragments': 'ref:Fragments', 'base': 'int', 'k': 'kw'},
             requires=["MoveWF(self)", "k.has_ipp", "offset >= 0", "base >= 0",
                       "isinst(self.move_arg, 'Field') or isint(self.move_arg)",
                       "implies(isinst(self.move_arg, 'Field'), hasslot(pkt, asref(self.move_arg, 'Field').field_name)"
                       "        and isint(slot(pkt, asref(self.move_arg, 'Field').field_name)))",
                       "implies(bool(self.is_alignment), intval(mv_u(self, pkt, raw, offset, k)) > 0)",
                       "fragments.current_offset == offset - base"],
             ensures=["fragments.current_offset == result - base",
                      "unchanged_view(fragments)"],
             raises={},
             known={'post#0': dict(id='K1a', case="self.reference == 'begins' and base != 0")},
             modifies=['fragments.current_offset'], returns='int'))

# ---------------------------------------------------------------- C07: Bits._compile establishes BitsWF for every member
# (all of BitsWF except that the shared integer's slot name "_bits__<names>" differs from the members' names:
#  string formatting, assumed)
add(Contract('ghost_clients:bits_compile_establishes_wf',
             params={'self': 'ref:Bits', 'position': 'int', 'fields': 'list', 'bisturi_conf': 'conf', 'j': 'int'},
             requires=["0 <= position and position < len(fields)", "allocated(fields)", "FieldsWF(fields)",
                       "same(tupitem(fields[position], 2, 1), self)", "not self.iam_first and not self.iam_last"],
             ensures=["implies(self.iam_last and RUN_LO(self, position) <= j and j <= position,"
                      "  FLD(fields, j).ghost_w >= 1 and FLD(fields, j).shift >= 0"
                      "  and FLD(fields, j).mask == lshift(pow2(FLD(fields, j).ghost_w) - 1, FLD(fields, j).shift)"
                      "  and IntCompiled(FLD(fields, j).I) and FLD(fields, j).I.is_bigendian and not FLD(fields, j).I.is_signed"
                      # the run's bytes: one integer of exactly total-width/8 bytes shared by all members
                      "  and same(FLD(fields, j).I, self.I)"
                      "  and 8 * self.I.byte_count == wsum(fields, RUN_LO(self, position), position + 1))"],
             raises={'ByteBoundaryError': []},
             modifies=['self.iam_first', 'self.iam_last', 'self.members', 'self.members[*]',
                       'Bits.shift[*]', 'Bits.mask[*]', 'Bits.I[*]', 'Bits.bit_count[*]'],
             allocates=True, returns='list'))
