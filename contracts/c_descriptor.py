"""Contracts for bisturi/descriptor.py (C17: Auto / AutoLength)."""
from pyvc.symex import Contract, LoopSpec
from pyvc.specev import define

CONTRACTS = {}


def add(c):
    CONTRACTS[c.name] = c
    return c


# the enabled flag: unset or true -> computed; false -> the explicitly assigned (hidden) value
define('d_enabled(self, inst)',
       "not hasslot(inst, self.iam_enabled_attr_name) or bool(slot(inst, self.iam_enabled_attr_name))")
define('d_computed(self, inst)', "cb(self.func, p0=inst)")
# what the attribute reads as
define('d_visible(self, inst)',
       "ite(d_enabled(self, inst), d_computed(self, inst), slot(inst, self.real_field_name))")
define('DescWF(self)', "self.iam_enabled_attr_name != self.real_field_name and iscallable(self.func)")

add(Contract(
    'descriptor:Auto._compile',
    params={'self': 'ref:Auto', 'field_name': 'str', 'descriptor_name': 'str', 'bisturi_conf': 'conf'},
    ensures=["self.iam_enabled_attr_name == strfmt('_is_descriptor_%s_enabled', descriptor_name)",
             # the flag lives in a declared slot (no instance __dict__ is needed)
             "len(result) == 1 and result[0] == self.iam_enabled_attr_name"],
    modifies=['self.iam_enabled_attr_name'], allocates=True, returns='list'))

add(Contract(
    'descriptor:Auto.__get__',
    params={'self': 'ref:Auto', 'instance': 'ref:Packet', 'owner': 'dyn'},
    requires=["DescWF(self)"],
    # reads as the computed value until explicitly assigned, as the assigned value until deleted
    ensures=["same(result, old(d_visible(self, instance)))"],
    raises={'OtherException*': ["old(d_enabled(self, instance)) and old(cb_raises(self.func, p0=instance))"],
            'AttributeError': ["not old(d_enabled(self, instance)) and not old(hasslot(instance, self.real_field_name))"]},
    modifies=[], returns='dyn'))

add(Contract(
    'descriptor:Auto.__set__',
    params={'self': 'ref:Auto', 'instance': 'ref:Packet', 'val': 'dyn'},
    requires=["DescWF(self)"],
    ensures=["not d_enabled(self, instance)", "hasslot(instance, self.real_field_name)",
             "same(slot(instance, self.real_field_name), val)",
             "same(d_visible(self, instance), val)"],
    modifies=['slot(instance, self.iam_enabled_attr_name)', 'slot(instance, self.real_field_name)']))

add(Contract(
    'descriptor:Auto.__delete__',
    params={'self': 'ref:Auto', 'instance': 'ref:Packet'},
    requires=["DescWF(self)"],
    ensures=["d_enabled(self, instance)"],
    modifies=['slot(instance, self.iam_enabled_attr_name)']))

add(Contract(
    'descriptor:Auto.sync_before_pack',
    params={'self': 'ref:Auto', 'instance': 'ref:Packet'},
    requires=["DescWF(self)"],
    ensures=[
        # pack serialises the hidden slot: after the sync it holds exactly what the attribute read as
        "hasslot(instance, self.real_field_name)",
        "same(slot(instance, self.real_field_name), old(d_visible(self, instance)))",
        # the explicit/computed state is not touched by a pack
        "d_enabled(self, instance) == old(d_enabled(self, instance))",
    ],
    raises={'OtherException*': ["old(d_enabled(self, instance)) and old(cb_raises(self.func, p0=instance))"],
            'AttributeError': ["not old(d_enabled(self, instance)) and not old(hasslot(instance, self.real_field_name))"]},
    modifies=['slot(instance, self.real_field_name)']))

add(Contract(
    'descriptor:AutoLength.calculate_length',
    params={'self': 'ref:AutoLength', 'instance': 'ref:Packet'},
    ensures=["result == len(old(slot(instance, self.length_of)))",
             "isbytes(old(slot(instance, self.length_of))) or islist(old(slot(instance, self.length_of)))"],
    raises={'TypeError': ["not (isbytes(old(slot(instance, self.length_of))) or islist(old(slot(instance, self.length_of))))"],
            'AttributeError': ["not old(hasslot(instance, self.length_of))"]},
    modifies=[], returns='int'))
