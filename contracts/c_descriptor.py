"""Contracts for bisturi/descriptor.py (C17: Auto / AutoLength)."""
from pyvc.symex import Contract, LoopSpec
from pyvc.specev import define

CONTRACTS = {}


def add(c):
    CONTRACTS[c.name] = c
    return c


# the enabled flag: unset or true -> computed; false -> the explicitly assigned (hidden) value
define('d_enabled(self, inst)',
       "not hasslot(inst, self.iam_enabled_attr_name) or bool(slot(inst, self.iam_enabled_attr_name))")
define('d_computed(self, inst)', "cb(self.func, p0=inst)")
# what the attribute reads as
define('d_visible(self, inst)',
       "ite(d_enabled(self, inst), d_computed(self, inst), slot(inst, self.real_field_name))")
define('DescWF(self)', "self.iam_enabled_attr_name != self.real_field_name and iscallable(self.func)")

add(Contract(
    'descriptor:Auto._compile',
    params={'self': 'ref:Auto', 'field_name': 'str', 'descriptor_name': 'str', 'bisturi_conf': 'conf'},
    ensures=["self.iam_enabled_attr_name == strfmt('_is_descriptor_%s_enabled', descriptor_name)",
             # the flag lives in a declared slot (no instance __dict__ is needed)
             "len(result) == 1 and result[0] == self.iam_enabled_attr_name"],
    modifies=['self.iam_enabled_attr_name'], allocates=True, returns='list'))

add(Contract(
    'descriptor:Auto.__get__',
    params={'self': 'ref:Auto', 'instance': 'ref:Packet', 'owner': 'dyn'},
    requires=["DescWF(self)"],
    # reads as the computed value until explicitly assigned, as the assigned value until deleted
    ensures=["same(result, old(d_visible(self, instance)))"],
    raises={'OtherException*': ["old(d_enabled(self, instance)) and old(cb_raises(self.func, p0=instance))"],
            'AttributeError': ["not old(d_enabled(self, instance)) and not old(hasslot(instance, self.real_field_name))"]},
    modifies=[], returns='dyn'))

add(Contract(
    'descriptor:Auto.__set__',
    params={'self': 'ref:Auto', 'instance': 'ref:Packet', 'val': 'dyn'},
    requires=["DescWF(self)"],
    ensures=["not d_enabled(self, instance)", "hasslot(instance, self.real_field_name)",
             "same(slot(instance, self.real_field_name), val)",
             "same(d_visible(self, instance), val)"],
    modifies=['slot(instance, self.iam_enabled_attr_name)', 'slot(instance, self.real_field_name)']))

add(Contract(
    'descriptor:Auto.__delete__',
    params={'self': 'ref:Auto', 'instance': 'ref:Packet'},
    requires=["DescWF(self)"],
    ensures=["d_enabled(self, instance)"],
    modifies=['slot(instance, self.iam_enabled_attr_name)']))

add(Contract(
    'descriptor:Auto.sync_before_pack',
    params={'self': 'ref:Auto', 'instance': 'ref:Packet'},
    requires=["DescWF(self)"],
    ensures=[
        # pack serialises the hidden slot: after the sync it holds exactly what the attribute read as
        "hasslot(instance, self.real_field_name)",
        "same(slot(instance, self.real_field_name), old(d_visible(self, instance)))",
        # the explicit/computed state is not touched by a pack
        "d_enabled(self, instance) == old(d_enabled(self, instance))",
    ],
    raises={'OtherException*': ["old(d_enabled(self, instance)) and old(cb_raises(self.func, p0=instance))"],
            'AttributeError': ["not old(d_enabled(self, instance)) and not old(hasslot(instance, self.real_field_name))"]},
    modifies=['slot(instance, self.real_field_name)']))

add(Contract(
    'descriptor:AutoLength.calculate_length',
    params={'self': 'ref:AutoLength', 'instance': 'ref:Packet'},
    ensures=["result == len(old(slot(instance, self.length_of)))",
             "isbytes(old(slot(instance, self.length_of))) or islist(old(slot(instance, self.length_of)))"],
    raises={'TypeError': ["not (isbytes(old(slot(instance, self.length_of))) or islist(old(slot(instance, self.length_of))))"],
            'AttributeError': ["not old(hasslot(instance, self.length_of))"]},
    modifies=[], returns='int'))

# ---------------------------------------------------------------- which sync hooks a class runs (C17, C02)
# PacketClassBuilder.collect_sync_methods_from_field_descriptors: for every described field of the table, IN TABLE ORDER,
# the sync_before_pack / sync_after_unpack method OF THAT FIELD'S OWN DESCRIPTOR (when it has one) - nothing else.
# g_nb / g_na: ghost, how many hooks of each kind the first `it` fields contributed.
define('TBL(self, i)', "asref(tupitem(self.fields[i], 2, 1), 'Field')")
define('described(self, i)', "not isnone(TBL(self, i).descriptor)")
define('hooked(self, i, name)', "described(self, i) and has_method(TBL(self, i).descriptor, name)")
_hooks = lambda lst, name, upto: [
    "len(self.%s) == hookcount(self, '%s', %s)" % (lst, name, upto),
    "forall(0, %s, lambda i: implies(hooked(self, i, '%s'),"
    "       same(self.%s[hookcount(self, '%s', i)], bound_method(TBL(self, i).descriptor, '%s'))))" % (upto, name, lst, name, name)]
add(Contract(
    'packet_builder:PacketClassBuilder.collect_sync_methods_from_field_descriptors',
    params={'self': 'ref:PacketClassBuilder'},
    requires=["allocated(self.fields)", "len(self.fields) >= 0",
              "forall(0, len(self.fields), lambda i: istuple(self.fields[i], 2) and isinst(tupitem(self.fields[i], 2, 1), 'Field')"
              "       and (isnone(TBL(self, i).descriptor) or isobject(TBL(self, i).descriptor)))"],
    ensures=["fresh_since(self.sync_before_pack_methods) and fresh_since(self.sync_after_unpack_methods)"]
            + _hooks('sync_before_pack_methods', 'sync_before_pack', 'len(self.fields)')
            + _hooks('sync_after_unpack_methods', 'sync_after_unpack', 'len(self.fields)'),
    loops={0: LoopSpec(["0 <= it and it <= len(self.fields)",
                        "fresh_since(self.sync_before_pack_methods) and fresh_since(self.sync_after_unpack_methods)",
                        "not same(self.sync_before_pack_methods, self.sync_after_unpack_methods)",
                        "not same(self.sync_before_pack_methods, self.fields) and not same(self.sync_after_unpack_methods, self.fields)"]
                       + _hooks('sync_before_pack_methods', 'sync_before_pack', 'it')
                       + _hooks('sync_after_unpack_methods', 'sync_after_unpack', 'it'),
                       kinds={'name': 'dyn', 'field': 'dyn'})},
    modifies=['self.sync_before_pack_methods', 'self.sync_after_unpack_methods'], allocates=True))
