"""Pure lemmas (no code): obligations over the contract vocabulary, discharged on every run."""
import z3
from pyvc.solve import to_smt2
from pyvc import theory as T

LEMMAS = {}


def lemma(name):
    def deco(fn):
        LEMMAS[name] = fn
        return fn
    return deco


def generate(name):
    out = dict(name='lemma:' + name, sha=None, obligations=[], groups=[], error=None, assumptions=[], paths=0)
    try:
        for i, (label, hyps, goal) in enumerate(LEMMAS[name]()):
            kind = 'lemma'
            if label.startswith('KNOWN:'):
                # a lemma that is expected NOT to hold: a recorded finding (known-full obligation)
                _, kid, label = label.split(':', 2)
                kind = 'known-full:' + kid
            oname = 'lemma:%s/%s' % (name, label)
            out['obligations'].append((oname, kind, 'g', label))
            s = z3.Solver()
            s.add(hyps)
            p = z3.Bool('pyvc_goal_0')
            s.add(z3.Implies(p, z3.Not(goal)))
            text = s.to_smt2()
            out['groups'].append(dict(prelude=text[:text.rindex('(check-sat)')], checks=[(oname, kind, label, 'pyvc_goal_0')]))
            # vacuity guard: the hypotheses of the lemma must not be contradictory
            s2 = z3.Solver()
            s2.add(hyps)
            p2 = z3.Bool('pyvc_goal_0')
            s2.add(z3.Implies(p2, z3.BoolVal(True)))
            t2 = s2.to_smt2()
            vname = oname + ' [hypotheses consistent]'
            out['obligations'].append((vname, 'must-not-hold', 'g', label))
            out['groups'].append(dict(prelude=t2[:t2.rindex('(check-sat)')], checks=[(vname, 'must-not-hold', label, 'pyvc_goal_0')]))
    except Exception as e:
        import traceback
        out['error'] = 'CRASH: %s\n%s' % (e, traceback.format_exc())
    return out


def _moddef(x, d, tag):
    """python x % d via witnesses (d > 0)"""
    q, r = z3.Int('q_' + tag), z3.Int('r_' + tag)
    return r, q, [x == T.mulf(q, d) + r, 0 <= r, r < d]


@lemma('C10.move_target_unique')
def move_target_unique():
    """'identically when parsing and serialising': the three alignment clauses of the Move
    contracts determine the position uniquely, so unpack and pack - which both satisfy them
    for the same current position, reference point and alignment - place the field at the
    same position relative to the reference point."""
    cur, start, m, r1, r2 = z3.Ints('cur start m r1 r2')
    obls = []

    def clauses(res, tag):
        rem, q, defs = _moddef(res - start, m, tag)
        a = z3.Int('a_' + tag)
        return defs + [0 <= res - cur, res - cur < m, rem == 0], q
    h1, q1 = clauses(r1, '1')
    h2, q2 = clauses(r2, '2')
    hyps = [m > 0] + h1 + h2 + [T.quotient_hint(q1, q2, m)]
    obls.append(('aligned positions are unique', hyps, r1 == r2))
    # at/shift: position - refpoint == target in both phases -> trivially equal
    t = z3.Int('t')
    obls.append(('at/shift positions are equal', [r1 - start == t, r2 - start == t], r1 == r2))
    return obls


@lemma('C17.visible_depends_only_on_flag_and_hidden')
def visible_frame():
    """Once explicitly assigned (flag false) the attribute keeps reading as the assigned value under
    any later writes to OTHER slots (in particular to the tracked field): visible is a function of
    the flag slot and the hidden slot only."""
    S1 = z3.Const('S1', T.ASV)
    S2 = z3.Const('S2', T.ASV)
    H1 = z3.Const('H1', T.ASB)
    H2 = z3.Const('H2', T.ASB)
    en, real = z3.Strings('en real')
    comp1, comp2 = z3.Consts('comp1 comp2', T.Val)

    def truthy(v):
        return z3.If(T.Val.is_VB(v), T.Val.bval(v), z3.If(T.Val.is_VI(v), T.Val.ival(v) != 0, z3.Not(T.Val.is_VN(v))))

    def visible(S, H, comp):
        enabled = z3.Or(z3.Not(H[en]), truthy(S[en]))
        return z3.If(enabled, comp, S[real]), enabled
    v1, e1 = visible(S1, H1, comp1)
    v2, e2 = visible(S2, H2, comp2)
    same_cells = [S1[en] == S2[en], H1[en] == H2[en], S1[real] == S2[real], H1[real] == H2[real], en != real]
    return [('explicit value survives writes to other slots', same_cells + [z3.Not(e1)], z3.And(z3.Not(e2), v2 == v1))]


# ---------------------------------------------------------------- C07: the bit-slice algebra
# Python's & | ~ << >> on unbounded ints, for mask-shaped operands (assumed facts A1-A3, DESIGN.md 2.5,
# cross-checked against CPython), with P = pow2 and M = (P(w)-1)*P(s):
#   A1  x & M        == ((x div P(s)) mod P(w)) * P(s)
#   A2  x & (-M-1)   == x - (x & M)                         (~M == -M-1)
#   A3  a | b        == a + b      when a & M == a and b & M == 0
#   x << s == x*P(s);  x >> s == x div P(s)   (floor)
# The lemmas below are pure integer arithmetic; div/mod are introduced by their defining witnesses and
# the only non-linear help the solver gets are quotient-uniqueness hints.
_P = z3.Function('P', z3.IntSort(), z3.IntSort())
_band = z3.Function('band', z3.IntSort(), z3.IntSort(), z3.IntSort())
_bor = z3.Function('bor', z3.IntSort(), z3.IntSort(), z3.IntSort())


def _dm(x, d, tag):
    q, r = z3.Int('q_' + tag), z3.Int('r_' + tag)
    return q, r, [x == q * d + r, 0 <= r, r < d]


def _hint(dd, d):
    return [z3.Implies(dd >= 1, dd * d >= d), z3.Implies(dd <= -1, dd * d <= -d)]


def _slice(x, wd, sh, tag):
    q1, r1, h1 = _dm(x, _P(sh), tag + 'a')
    q2, r2, h2 = _dm(q1, _P(wd), tag + 'b')
    return r2, h1 + h2, (q1, q2, r1)


def _A1(x, w, s, tag):
    """instance of A1 for x: returns (facts, slice value)"""
    sl, h, qs = _slice(x, w, s, tag)
    M = (_P(w) - 1) * _P(s)
    return h + [_band(x, M) == sl * _P(s)], sl, qs


@lemma('C07.unpack_slice')
def c07_unpack():
    """(I & mask) >> shift is exactly the field's own bit slice (I div 2^shift) mod 2^w."""
    I_, w, s = z3.Ints('I w s')
    base = [w >= 1, s >= 0, _P(w) >= 2, _P(s) >= 1]
    a1, own, (q1, q2, r1) = _A1(I_, w, s, 'u')
    M = (_P(w) - 1) * _P(s)
    qq, rr, hq = _dm(_band(I_, M), _P(s), 'sh')        # (I & M) >> s
    return [('(I & M) >> s == slice', base + a1 + hq + _hint(qq - own, _P(s)), qq == own)]


@lemma('C07.pack_merge')
def c07_pack():
    """I' = ((v << s) & M) | (I & ~M) sets the field's own slice to v mod 2^w for ANY integer v
    (negative, >= 2^w) and leaves every disjoint slice - lower or higher neighbour - untouched."""
    I_, v, w, s, wj, sj = z3.Ints('I v w s wj sj')
    base = [w >= 1, s >= 0, wj >= 1, sj >= 0, _P(w) >= 2, _P(s) >= 1, _P(wj) >= 2, _P(sj) >= 1]
    M = (_P(w) - 1) * _P(s)
    out = []
    # -- step 1: the merged value is I + (v mod 2^w - own(I)) * 2^s
    a1_I, own_old, (q1o, q2o, r1o) = _A1(I_, w, s, 'o')
    qv, rv, hv = _dm(v, _P(w), 'v')
    vs = v * _P(s)
    a1_vs, sl_vs, (q1v, q2v, r1v) = _A1(vs, w, s, 'vs')
    a = _band(vs, M)
    b = _band(I_, -M - 1)
    A2 = [b == I_ - _band(I_, M)]
    a1_a, sl_a, (q1a, q2a, r1a) = _A1(a, w, s, 'a')
    a1_b, sl_b, (q1b, q2b, r1b) = _A1(b, w, s, 'b')
    A3 = [z3.Implies(z3.And(_band(a, M) == a, _band(b, M) == 0), _bor(a, b) == a + b)]
    H1 = base + a1_I + hv + a1_vs + _hint(q1v - v, _P(s)) + _hint(q2v - qv, _P(w))
    out.append(('a: (v<<s) & M == (v mod 2^w) * 2^s', H1, a == rv * _P(s)))
    H2 = base + hv + a1_a + [a == rv * _P(s)] + _hint(q1a - rv, _P(s)) + _hint(q2a, _P(w))
    out.append(('a & M == a', H2, _band(a, M) == a))
    H3 = base + a1_I + A2 + a1_b + [b == I_ - own_old * _P(s)] + _hint(q1b - q2o * _P(w), _P(s)) + _hint(q2b - q2o, _P(w))
    out.append(('b == I - own*2^s', base + a1_I + A2, b == I_ - own_old * _P(s)))
    out.append(('b & M == 0', H3, _band(b, M) == 0))
    I2 = I_ + (rv - own_old) * _P(s)
    out.append(('merged value', base + a1_I + hv + A2 + A3 + [a == rv * _P(s), _band(a, M) == a, _band(b, M) == 0],
                _bor(a, b) == I2))
    # -- step 2: own slice of I2 is v mod 2^w
    own_new, h_new, (q1n, q2n, r1n) = _slice(I2, w, s, 'n')
    _, h_old, _ = _slice(I_, w, s, 'o')
    H = base + h_old + hv + h_new + _hint(q1n - (q1o + rv - own_old), _P(s)) + _hint(q2n - q2o, _P(w))
    out.append(('own slice == v mod 2^w', H, own_new == rv))
    # -- step 3: a lower neighbour (sj + wj <= s) keeps its slice; 2^s = k * 2^wj * 2^sj (product law of pow2)
    lo_old, hlo, (a1, a2, _) = _slice(I_, wj, sj, 'lo')
    lo_new, hln, (b1, b2, _) = _slice(I2, wj, sj, 'ln')
    k = z3.Int('k')
    Hl = base + h_old + hv + hlo + hln + [sj + wj <= s, _P(s) == k * _P(wj) * _P(sj), k >= 1]
    Hl += _hint(b1 - (a1 + (rv - own_old) * k * _P(wj)), _P(sj)) + _hint(b2 - (a2 + (rv - own_old) * k), _P(wj))
    out.append(('lower neighbour untouched', Hl, lo_new == lo_old))
    # -- step 4: a higher neighbour (s + w <= sj) keeps its slice; 2^sj = k2 * 2^w * 2^s
    hi_old, hho, (c1, c2, _) = _slice(I_, wj, sj, 'ho')
    hi_new, hhn, (d1, d2, _) = _slice(I2, wj, sj, 'hn')
    k2, Tt, e, f = z3.Ints('k2 T e f')
    lowI = own_old * _P(s) + r1o
    lowI2 = rv * _P(s) + r1o
    Hf = base + h_old + hv + [Tt == _P(w) * _P(s)]
    out.append(('hi: I == q*T + low', Hf, z3.And(I_ == q2o * Tt + lowI, I2 == q2o * Tt + lowI2)))
    out.append(('hi: low < T', Hf + [(_P(w) - 1 - own_old) * _P(s) >= 0, (_P(w) - 1 - rv) * _P(s) >= 0, rv * _P(s) >= 0,
                                      own_old * _P(s) >= 0],
                z3.And(0 <= lowI, lowI < Tt, 0 <= lowI2, lowI2 < Tt)))
    lw = z3.Int('lw')
    Hg = [Tt >= 1, k2 >= 1, 0 <= f, f < k2, _P(sj) == k2 * Tt, 0 <= lw, lw < Tt, (k2 - 1 - f) * Tt >= 0, f * Tt >= 0]
    out.append(('hi: f*T + low < 2^sj', Hg, z3.And(f * Tt + lw < _P(sj), f * Tt + lw >= 0)))
    Hh = base + h_old + hv + hho + hhn + [s + w <= sj, Tt == _P(w) * _P(s), _P(sj) == k2 * Tt, k2 >= 1,
                                          q2o == e * k2 + f, 0 <= f, f < k2,
                                          I_ == q2o * Tt + lowI, I2 == q2o * Tt + lowI2,
                                          0 <= lowI, lowI < Tt, 0 <= lowI2, lowI2 < Tt,
                                          f * Tt + lowI < _P(sj), f * Tt + lowI2 < _P(sj), f * Tt >= 0]
    out.append(('hi: I == e*2^sj + rest', Hh, z3.And(I_ == e * _P(sj) + (f * Tt + lowI), I2 == e * _P(sj) + (f * Tt + lowI2))))
    Hh2 = Hh + [I_ == e * _P(sj) + (f * Tt + lowI), I2 == e * _P(sj) + (f * Tt + lowI2)]
    Hh2 += _hint(c1 - e, _P(sj)) + _hint(d1 - e, _P(sj)) + _hint(d2 - c2, _P(wj))
    out.append(('higher neighbour untouched', Hh2, hi_new == hi_old))
    return out


@lemma('C04.truncation')
def c04_truncation():
    """Cutting a valid input anywhere inside a non-empty fixed-width field leaves a slice that is
    shorter than the declared width, so the strictness postcondition (offset + n <= len(raw)) of
    the leaf contracts excludes a normal exit: for every cut point t with o <= t < o + n."""
    n, o, t, L = z3.Ints('n o t L')
    raw = z3.Const('raw', T.Bytes)
    cut = T.bslice(raw, 0, t)
    hyps = T.bytes_axioms() + [n >= 1, o >= 0, o <= t, t < o + n, t <= T.blen(raw)]
    return [('a cut inside the field makes the slice short', hyps, z3.Not(o + n <= T.blen(cut)))]


@lemma('bytes.slice_of_slice')
def slice_of_slice():
    """the derived axiom of theory.bytes_axioms is a consequence of the basic ones + extensionality"""
    s = z3.Const('s', T.Bytes)
    a, b, c, d = z3.Ints('a b c d')
    lhs, rhs = T.bslice(T.bslice(s, a, b), c, d), T.bslice(s, a + c, a + d)
    hyps = T.bytes_axioms(derived=False) + [T.ext_instance(lhs, rhs), 0 <= a, a <= b, b <= T.blen(s), 0 <= c, c <= d, d <= b - a]
    return [('slice of slice', hyps, lhs == rhs)]


@lemma('C01.bits_identity')
def c01_bits_identity():
    """unpack-then-pack of a bit field leaves the shared integer unchanged:
    ((((x & M) >> s) << s) & M) | (x & ~M) == x   (free_requires hint of ghost client rt1_bits_member)."""
    I_, w, s = z3.Ints('I w s')
    base = [w >= 1, s >= 0, _P(w) >= 2, _P(s) >= 1]
    M = (_P(w) - 1) * _P(s)
    a1_I, own, (q1o, q2o, r1o) = _A1(I_, w, s, 'o')
    # v = (I & M) >> s == own  (lemma C07.unpack_slice)
    qq, rr, hq = _dm(_band(I_, M), _P(s), 'sh')
    v = qq
    out = [('v == own slice', base + a1_I + hq + _hint(qq - own, _P(s)), v == own)]
    vs = v * _P(s)
    a1_vs, sl_vs, (q1v, q2v, r1v) = _A1(vs, w, s, 'vs')
    a = _band(vs, M)
    b = _band(I_, -M - 1)
    A2 = [b == I_ - _band(I_, M)]
    H = base + a1_I + hq + a1_vs + [v == own] + _hint(q1v - v, _P(s)) + _hint(q2v, _P(w))
    out.append(('a == own * 2^s', H, a == own * _P(s)))
    a1_a, sl_a, (q1a, q2a, r1a) = _A1(a, w, s, 'a')
    out.append(('a & M == a', base + a1_I + a1_a + [a == own * _P(s)] + _hint(q1a - own, _P(s)) + _hint(q2a, _P(w)), _band(a, M) == a))
    a1_b, sl_b, (q1b, q2b, r1b) = _A1(b, w, s, 'b')
    out.append(('b & M == 0', base + a1_I + A2 + a1_b + [b == I_ - own * _P(s)] + _hint(q1b - q2o * _P(w), _P(s)) + _hint(q2b - q2o, _P(w)),
                _band(b, M) == 0))
    A3 = [z3.Implies(z3.And(_band(a, M) == a, _band(b, M) == 0), _bor(a, b) == a + b)]
    out.append(('identity', base + a1_I + A2 + A3 + [a == own * _P(s), _band(a, M) == a, _band(b, M) == 0], _bor(a, b) == I_))
    return out


# ====================================================================== C18: the language of the pieces
def _rx_theory():
    """ASSUMED denotation of the piece shapes the code can emit (full match of a region, flag (?s));
    cross-checked against CPython's re on every run by pyvc/probe_c18.py (bounded)."""
    esc = z3.Function('re_escape', T.Bytes, T.Bytes)
    lang = z3.Function('rx_lang', T.Bytes, T.Bytes, T.B)
    strfmt = z3.Function('strfmt', T.S, T.Val, T.S)
    enc = z3.Function('encode_ascii', T.S, T.Bytes)
    dotn = lambda n: enc(strfmt(z3.StringVal('.{%i}'), T.Val.VI(n)))
    DOTSTAR = z3.Const('bytes_dotstar', T.Bytes)          # the text b".*"
    x, s, t, a, b = z3.Consts('x s t a b', T.Bytes)
    n = z3.Int('n')
    ax = [
        z3.ForAll([x, s], lang(esc(x), s) == (s == x), patterns=[lang(esc(x), s)]),
        z3.ForAll([n, s], z3.Implies(n >= 0, lang(dotn(n), s) == (T.blen(s) == n)), patterns=[lang(dotn(n), s)]),
        z3.ForAll([s], lang(DOTSTAR, s), patterns=[lang(DOTSTAR, s)]),
        z3.ForAll([a, b, s, t], z3.Implies(z3.And(lang(a, s), lang(b, t)), lang(T.bconcat(a, b), T.bconcat(s, t))),
                  patterns=[z3.MultiPattern(lang(a, s), lang(b, t), T.bconcat(a, b), T.bconcat(s, t))]),
    ]
    return esc, lang, dotn, DOTSTAR, ax


@lemma('C18.int_pieces')
def c18_int_pieces():
    """Int: the region raw[o:o+n] that decodes (contract C05) to the pattern's value is in the language of the
    piece Int.pack_regexp appends (contract): escape(to_bytes(value)) for a fixed value, .{n} for Any."""
    esc, lang, dotn, DOTSTAR, ax = _rx_theory()
    raw = z3.Const('raw', T.Bytes)
    o, n, v = z3.Ints('o n v')
    big, sg = z3.Bools('big sg')
    region = T.bslice(raw, o, o + n)
    base = T.bytes_axioms() + T.int_bytes_axioms() + ax + [n >= 1, o >= 0, o + n <= T.blen(raw)]
    return [
        ('fixed value: the decoded region is exactly the escaped literal', base + [v == T.bval(region, big, sg)],
         lang(esc(T.bofint(v, n, big, sg)), region)),
        ('Any: n bytes', base, lang(dotn(n), region)),
    ]


@lemma('C18.data_pieces')
def c18_data_pieces():
    """Data: sized by a constant / a field / a callback answering m (contract C06: value == raw[o:o+m], region the same);
    delimited by a bytes marker (value == raw[o:c], region raw[o:c+|marker|], the marker follows the value)."""
    esc, lang, dotn, DOTSTAR, ax = _rx_theory()
    raw, marker = z3.Consts('raw marker', T.Bytes)
    o, m, c = z3.Ints('o m c')
    base = T.bytes_axioms() + ax + [o >= 0]
    sized = base + [m >= 0, o + m <= T.blen(raw)]
    value = T.bslice(raw, o, o + m)
    # delimited: value = raw[o:c], raw[c:c+|marker|] == marker, consumed region = raw[o:c+|marker|]
    L = T.blen(marker)
    delim = base + [c >= o, L >= 1, c + L <= T.blen(raw), T.bslice(raw, c, c + L) == marker]
    v2 = T.bslice(raw, o, c)
    region2 = T.bslice(raw, o, c + L)
    split = [T.ext_instance(region2, T.bconcat(v2, marker))]
    return [
        ('sized, fixed value (no delimiter to re-emit)', sized, lang(esc(T.bconcat(value, T.bempty)), value)),
        ('sized, Any: m bytes', sized, lang(dotn(m), value)),
        ('size unknown, Any: anything', sized, lang(DOTSTAR, value)),
        ('region of a delimited value is value ++ marker', delim + split, region2 == T.bconcat(v2, marker)),
        ('delimited (consumed, not included), fixed value: escape(value ++ marker)', delim + split,
         lang(esc(T.bconcat(v2, marker)), region2)),
        ('delimited (consumed, not included), Any: .* ++ escape(marker)', delim + split,
         lang(T.bconcat(DOTSTAR, esc(marker)), region2)),
        ('delimited, delimiter kept in the value, Any: .* ++ escape(marker) on the value itself', delim + split,
         lang(T.bconcat(DOTSTAR, esc(marker)), T.bconcat(v2, marker))),
    ]


@lemma('C18.not_consumed_delimiter')
def c18_not_consumed():
    """KNOWN FINDING K18a: with consume_delimiter=False the consumed region is the value alone (the delimiter stays in
    the input for the next field) but the piece still ends in the escaped delimiter: the region is NOT in its language,
    and in the assembled expression the delimiter is matched twice."""
    esc, lang, dotn, DOTSTAR, ax = _rx_theory()
    raw, marker = z3.Consts('raw marker', T.Bytes)
    o, c = z3.Ints('o c')
    L = T.blen(marker)
    base = T.bytes_axioms() + ax + [o >= 0, c >= o, L >= 1, c + L <= T.blen(raw), T.bslice(raw, c, c + L) == marker]
    v2 = T.bslice(raw, o, c)
    return [('KNOWN:K18a:not consumed: the region (the value alone) is in the language of .* ++ escape(marker)', base,
             lang(T.bconcat(DOTSTAR, esc(marker)), v2))]


@lemma('C18.constrained_any')
def c18_constrained_any():
    """KNOWN FINDING K18b: Any(startswith=/endswith=/contains=) compares equal to every value in which its expression
    is FOUND (re.search, unanchored) but contributes that expression as a piece that must match the whole region:
    a value that merely contains a match equals the pattern and is not in the language of the piece."""
    esc, lang, dotn, DOTSTAR, ax = _rx_theory()
    a, b, c, custom = z3.Consts('a b c custom', T.Bytes)
    v = T.bconcat(T.bconcat(a, b), c)
    base = T.bytes_axioms() + ax + [lang(custom, b)]          # the expression is found inside v = a ++ b ++ c
    return [('KNOWN:K18b:a value in which the expression of a constrained Any is found is in the language of that expression', base,
             lang(custom, v))]
