"""Pure lemmas (no code): obligations over the contract vocabulary, discharged on every run."""
import z3
from pyvc.solve import to_smt2
from pyvc import theory as T

LEMMAS = {}


def lemma(name):
    def deco(fn):
        LEMMAS[name] = fn
        return fn
    return deco


def generate(name):
    out = dict(name='lemma:' + name, sha=None, obligations=[], groups=[], error=None, assumptions=[], paths=0)
    try:
        for i, (label, hyps, goal) in enumerate(LEMMAS[name]()):
            oname = 'lemma:%s/%s' % (name, label)
            out['obligations'].append((oname, 'lemma', 'g', label))
            s = z3.Solver()
            s.add(hyps)
            p = z3.Bool('pyvc_goal_0')
            s.add(z3.Implies(p, z3.Not(goal)))
            text = s.to_smt2()
            out['groups'].append(dict(prelude=text[:text.rindex('(check-sat)')], checks=[(oname, 'lemma', label, 'pyvc_goal_0')]))
    except Exception as e:
        import traceback
        out['error'] = 'CRASH: %s\n%s' % (e, traceback.format_exc())
    return out


def _moddef(x, d, tag):
    """python x % d via witnesses (d > 0)"""
    q, r = z3.Int('q_' + tag), z3.Int('r_' + tag)
    return r, q, [x == T.mulf(q, d) + r, 0 <= r, r < d]


@lemma('C10.move_target_unique')
def move_target_unique():
    """'identically when parsing and serialising': the three alignment clauses of the Move
    contracts determine the position uniquely, so unpack and pack - which both satisfy them
    for the same current position, reference point and alignment - place the field at the
    same position relative to the reference point."""
    cur, start, m, r1, r2 = z3.Ints('cur start m r1 r2')
    obls = []

    def clauses(res, tag):
        rem, q, defs = _moddef(res - start, m, tag)
        a = z3.Int('a_' + tag)
        return defs + [0 <= res - cur, res - cur < m, rem == 0], q
    h1, q1 = clauses(r1, '1')
    h2, q2 = clauses(r2, '2')
    hyps = [m > 0] + h1 + h2 + [T.quotient_hint(q1, q2, m)]
    obls.append(('aligned positions are unique', hyps, r1 == r2))
    # at/shift: position - refpoint == target in both phases -> trivially equal
    t = z3.Int('t')
    obls.append(('at/shift positions are equal', [r1 - start == t, r2 - start == t], r1 == r2))
    return obls


@lemma('C17.visible_depends_only_on_flag_and_hidden')
def visible_frame():
    """Once explicitly assigned (flag false) the attribute keeps reading as the assigned value under
    any later writes to OTHER slots (in particular to the tracked field): visible is a function of
    the flag slot and the hidden slot only."""
    S1 = z3.Const('S1', T.ASV)
    S2 = z3.Const('S2', T.ASV)
    H1 = z3.Const('H1', T.ASB)
    H2 = z3.Const('H2', T.ASB)
    en, real = z3.Strings('en real')
    comp1, comp2 = z3.Consts('comp1 comp2', T.Val)

    def truthy(v):
        return z3.If(T.Val.is_VB(v), T.Val.bval(v), z3.If(T.Val.is_VI(v), T.Val.ival(v) != 0, z3.Not(T.Val.is_VN(v))))

    def visible(S, H, comp):
        enabled = z3.Or(z3.Not(H[en]), truthy(S[en]))
        return z3.If(enabled, comp, S[real]), enabled
    v1, e1 = visible(S1, H1, comp1)
    v2, e2 = visible(S2, H2, comp2)
    same_cells = [S1[en] == S2[en], H1[en] == H2[en], S1[real] == S2[real], H1[real] == H2[real], en != real]
    return [('explicit value survives writes to other slots', same_cells + [z3.Not(e1)], z3.And(z3.Not(e2), v2 == v1))]
