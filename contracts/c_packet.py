"""Contracts for bisturi/packet.py: PacketError, Packet drivers (C12), __eq__/__repr__ (C20), __init__ (C19)."""
from pyvc.symex import Contract, LoopSpec
from pyvc.specev import define
from . import c_fragments  # noqa: F401

CONTRACTS = {}


def add(c):
    CONTRACTS[c.name] = c
    return c


FRAG_MOD = ['fragments.fragments{*}', 'fragments.begin_of_fragments[*]', 'fragments.current_offset',
            'fragments.ghost_idx{*}']

# ---------------------------------------------------------------- abstract field contract (role)
# What the packet drivers, Sequence, Optional and Ref may rely on for ANY table entry
# (DESIGN.md section 3); every concrete field kind is verified against its own, stronger contract.
define('StackWF(e)',
       "allocated(e.fields_stack) and len(e.fields_stack) >= 1 and forall(0, len(e.fields_stack), lambda i:"
       " istuple(e.fields_stack[i], 3) and isint(tupitem(e.fields_stack[i], 3, 0)))")

add(Contract(
    'role:FIELD.unpack', role=True,
    params={'f': 'ref:Field', 'pkt': 'ref:Packet', 'raw': 'bytes', 'offset': 'int', 'k': 'kw'},
    requires=["offset >= 0", "k.has_ipp"],
    ensures=["result >= 0"],
    raises={'PacketError': ["exc.was_error_found_in_unpacking_phase == True", "StackWF(exc)",
                            "fresh_since(exc) and fresh_since(exc.fields_stack)"],
            'OtherException*': []},
    # a field writes only the slots it owns in its packet (its value slot and scratch slots)
    modifies=['slot(pkt, in:owns(f, n))'], allocates=True, returns='int'))

add(Contract(
    'role:FIELD.pack', role=True,
    params={'f': 'ref:Field', 'pkt': 'ref:Packet', 'fragments': 'ref:Fragments', 'k': 'kw'},
    requires=["WF(fragments)", "fragments.current_offset >= 0", "k.has_ipp"],
    ensures=["WF(fragments)", "fragments.current_offset >= 0",
             # serialising never changes the field's value (scratch slots it owns may change)
             "hasslot(pkt, f.field_name) == old(hasslot(pkt, f.field_name))",
             "same(slot(pkt, f.field_name), old(slot(pkt, f.field_name)))"],
    raises={'PacketError': ["exc.was_error_found_in_unpacking_phase == False", "StackWF(exc)",
                            "fresh_since(exc) and fresh_since(exc.fields_stack)",
                            "WF(fragments)", "fragments.current_offset >= 0"],
            'OtherException*': ["WF(fragments)", "fragments.current_offset >= 0"]},
    modifies=['slot(pkt, in:owns(f, n))'] + FRAG_MOD, allocates=True, returns='dyn'))

# descriptor sync hooks (Auto.sync_before_pack): may fail with any exception
add(Contract(
    'role:SYNC.pack', role=True,
    params={'fn': 'func:SYNC.pack', 'instance': 'ref:Packet'},
    raises={'OtherException*': []},
    modifies=['slot(instance, *)'], returns='none'))
add(Contract(
    'role:SYNC.unpack', role=True,
    params={'fn': 'func:SYNC.unpack', 'instance': 'ref:Packet'},
    raises={'OtherException*': []},
    modifies=['slot(instance, *)'], returns='none'))

# ---------------------------------------------------------------- PacketError
add(Contract(
    'packet:PacketError.__init__',
    params={'self': 'ref:PacketError', 'was_error_found_in_unpacking_phase': 'bool', 'field_name': 'str',
            'packet_class_name': 'str', 'offset': 'int', 'original_error_message': 'str'},
    ensures=[
        "self.was_error_found_in_unpacking_phase == was_error_found_in_unpacking_phase",
        "len(self.fields_stack) == 1",
        "self.fields_stack[0] == (offset, field_name, packet_class_name)",
        "fresh_since(self.fields_stack)",
        "StackWF(self)",
    ],
    modifies=['self.*'], allocates=True))

add(Contract(
    'packet:PacketError.add_parent_field_and_packet',
    params={'self': 'ref:PacketError', 'offset': 'int', 'field_name': 'str', 'packet_class_name': 'str'},
    requires=["StackWF(self)"],
    ensures=[
        "len(self.fields_stack) == old(len(self.fields_stack)) + 1",
        "self.fields_stack[len(self.fields_stack) - 1] == (offset, field_name, packet_class_name)",
        # the older entries are the very same objects (identity, not just ==)
        "forall(0, old(len(self.fields_stack)), lambda i: same(self.fields_stack[i], old(self.fields_stack[i])))",
        "StackWF(self)",
    ],
    modifies=['self.fields_stack[*]']))

add(Contract(
    'packet:PacketError.__str__',
    params={'self': 'ref:PacketError'},
    requires=["StackWF(self)"],
    # rendering never fails: no exceptional exit is allowed
    ensures=[], raises={},
    loops={0: LoopSpec(["0 <= it"], kinds={'offset': 'dyn', 'field_name': 'dyn', 'packet_class_name': 'dyn',
                                          'offset_and_pkt_class': 'str', 'first_part_len': 'int', 'space': 'str',
                                          'line': 'str'})},
    modifies=[], allocates=True, returns='str'))

# ---------------------------------------------------------------- Packet drivers (C12)
define('CN(self)', "class_name(class_of(self))")
define('FT(self)', "ft_len(class_of(self))")

add(Contract(
    'packet:Packet.unpack_impl',
    params={'self': 'ref:Packet', 'raw': 'bytes', 'offset': 'int', 'k': 'kw'},
    requires=["offset >= 0"],
    ensures=["result >= 0"],
    raises={
        # every failure of a field is a PacketError in the parsing phase ...
        'PacketError': [
            "exc.was_error_found_in_unpacking_phase == True",
            "StackWF(exc)",
            # ... whose outermost entry for this packet names the failing field, the packet class and
            # the offset where that field begins (g_idx / g_off: ghost, set at the start of each iteration)
            "0 <= g_idx and g_idx < FT(self)",
            "exc.fields_stack[len(exc.fields_stack) - 1] == (g_off, ft_name(class_of(self), g_idx), CN(self))",
            "fresh_since(exc) and fresh_since(exc.fields_stack)",
        ],
    },
    loops={0: LoopSpec(["0 <= it", "offset >= 0", "k.has_ipp and k.ipp == g_start"],
                       ghost={'g_off': 'offset', 'g_idx': 'it'}),
           1: LoopSpec(["0 <= it"], ghost={'g_in_sync': 'True'})},
    ghost_init={'g_in_sync': 'False', 'g_start': 'offset'},
    ghost_kinds={'g_idx': 'int', 'g_off': 'int', 'g_in_sync': 'bool', 'g_start': 'int'},
    # every field parses with 'innermost-pkt-pos' = the offset where THIS packet begins (relative positions, C10)
    call_asserts={'FIELD.unpack': ["arg_k.has_ipp and arg_k.ipp == g_start"]},
    # K12a: the descriptor sync hooks run outside the try block, so an exception of a hook escapes raw
    known={'no OtherException* escapes': dict(id='K12a', case="g_in_sync")},
    modifies=['slot(self, *)'], allocates=True, returns='int'))

add(Contract(
    'packet:Packet.pack_impl',
    params={'self': 'ref:Packet', 'fragments': 'ref:Fragments', 'k': 'kw'},
    requires=["WF(fragments)", "fragments.current_offset >= 0"],
    ensures=["result == fragments", "WF(fragments)", "fragments.current_offset >= 0"],
    raises={
        'PacketError': [
            "exc.was_error_found_in_unpacking_phase == False",
            "StackWF(exc)",
            "0 <= g_idx and g_idx < FT(self)",
            "tupitem(exc.fields_stack[len(exc.fields_stack) - 1], 3, 1) == ft_name(class_of(self), g_idx)",
            "tupitem(exc.fields_stack[len(exc.fields_stack) - 1], 3, 2) == CN(self)",
            # offset where the failing field begins = the cursor at the start of its iteration
            "tupitem(exc.fields_stack[len(exc.fields_stack) - 1], 3, 0) == g_cur",
            "WF(fragments)",
            "fresh_since(exc) and fresh_since(exc.fields_stack)",
        ],
    },
    loops={0: LoopSpec(["0 <= it", "unchanged(fragments)", "g_sync_calls == it"], ghost={'g_in_sync': 'True'},
                       ghost_havoc=['g_sync_calls']),
           1: LoopSpec(["0 <= it", "WF(fragments)", "fragments.current_offset >= 0", "k.has_ipp and k.ipp == g_start",
                        "g_sync_calls == sync_len_pack(class_of(self))"],
                       ghost={'g_cur': 'fragments.current_offset', 'g_idx': 'it', 'g_in_sync': 'False'})},
    ghost_init={'g_in_sync': 'False', 'g_sync_calls': '0', 'g_start': 'fragments.current_offset'},
    ghost_kinds={'g_idx': 'int', 'g_cur': 'int', 'g_in_sync': 'bool', 'g_sync_calls': 'int', 'g_start': 'int'},
    # every descriptor sync hook has run before the first field is serialised (C17); every field is serialised with
    # 'innermost-pkt-pos' = the position where THIS packet begins (relative positions, C10)
    call_effects={'SYNC.pack': {'g_sync_calls': 'g_sync_calls + 1'}},
    call_asserts={'FIELD.pack': ["g_sync_calls == sync_len_pack(class_of(self))", "arg_k.has_ipp and arg_k.ipp == g_start"]},
    known={
        'no OtherException* escapes': dict(id='K12a', case="g_in_sync"),
        # K12b: a field whose pack moves the cursor before failing (a repeated field failing at its
        # k-th element) is reported at the cursor of the failure, not where the field begins
        'raises PacketError#5': dict(id='K12b', case="fragments.current_offset != g_cur"),
    },
    modifies=['slot(self, *)'] + FRAG_MOD, allocates=True, returns='ref:Fragments'))

# ---------------------------------------------------------------- Packet.__init__ (driver part), unpack, pack
define('flag_of(dn)', "strfmt('_is_descriptor_%s_enabled', dn)")
define('hidden_of(dn)', "strfmt('_described_%s', dn)")
# python's descriptor protocol for a described field (Auto.__set__, verified in c_descriptor, with the
# names fixed by Field._describe_yourself / Auto._compile): explicit value, computed value disabled
add(Contract(
    'role:DESC.__set__', role=True,
    params={'instance': 'ref:Packet', 'dn': 'str', 'val': 'dyn'},
    ensures=["hasslot(instance, flag_of(dn)) and same(slot(instance, flag_of(dn)), False)",
             "hasslot(instance, hidden_of(dn)) and same(slot(instance, hidden_of(dn)), val)"],
    # (the descriptor of a described field is installed in the class by the builder: the
    # assignment cannot fail with AttributeError - WFClass)
    modifies=['slot(instance, flag_of(dn))', 'slot(instance, hidden_of(dn))']))

define('DN(self, i)', "ft_field(class_of(self), i).descriptor_name")
# WFClass (assumed): no table entry owns the descriptor flag slot / hidden slot of another entry
define('DescSlotsDisjoint(self)',
       "forall(lambda i, j: implies(0 <= i and i < FT(self) and 0 <= j and j < FT(self) and i != j and isstr(DN(self, i)),"
       "   not owns(ft_field(class_of(self), j), flag_of(DN(self, i)))"
       "   and not owns(ft_field(class_of(self), j), hidden_of(DN(self, i)))"
       "   and not (isstr(DN(self, j)) and (flag_of(DN(self, j)) == flag_of(DN(self, i))"
       "            or hidden_of(DN(self, j)) == hidden_of(DN(self, i))"
       "            or flag_of(DN(self, j)) == hidden_of(DN(self, i))"
       "            or hidden_of(DN(self, j)) == flag_of(DN(self, i))))),"
       "   pat=lambda i, j: (ft_field(class_of(self), i), ft_field(class_of(self), j)))"
       " and forall(0, FT(self), lambda i: allocated(ft_field(class_of(self), i)))")
define('ctor_keyword_applied(self, defaults, i)',
       "implies(isstr(DN(self, i)) and (DN(self, i) in defaults),"
       "        hasslot(self, flag_of(DN(self, i))) and same(slot(self, flag_of(DN(self, i))), False)"
       "        and same(slot(self, hidden_of(DN(self, i))), defaults[DN(self, i)]))")

add(Contract(
    'packet:Packet.__init__',
    params={'self': 'ref:Packet', '_initialize_fields': 'bool', 'defaults': 'conf'},
    varkw='defaults', defaults={'_initialize_fields': 'True'},
    free_requires=["DescSlotsDisjoint(self)"],      # WFClass: a property of the class, assumed (not checked at call sites)
    ensures=[
        # constructing with the keyword of a described field == assigning it (whatever the value, 0 included)
        "implies(_initialize_fields, forall(0, FT(self), lambda i: ctor_keyword_applied(self, defaults, i)))",
        # without initialisation nothing is set
        "implies(not _initialize_fields, unchanged_slots(self))",
    ],
    raises={'OtherException*': ["_initialize_fields"]},
    loops={0: LoopSpec(["0 <= it", "forall(0, it, lambda j: ctor_keyword_applied(self, defaults, j))"])},
    modifies=['slot(self, *)'], allocates=True))
Packet_init = CONTRACTS['packet:Packet.__init__']
Packet_init.descriptor_setattr = True

add(Contract(
    'packet:Packet.unpack',
    params={'cls': 'cls', 'raw': 'dyn', 'offset': 'int', 'silent': 'bool'},
    defaults={'offset': '0', 'silent': 'False'},
    requires=["offset >= 0"],
    ensures=[
        "isbytes(raw)",
        # a packet of the class, or None - and None only in silent mode
        "implies(isnone(result), silent)",
        "implies(not isnone(result), isinst(result, 'Packet'))",
        # a packet is returned only when the whole parse succeeded (in silent mode a failed parse gives None, never
        # the partially decoded packet); and it is the packet that was parsed
        "implies(not isnone(result), g_parsed and same(result, g_pkt))",
    ],
    raises={
        # input that is not bytes is rejected with ValueError
        'ValueError': ["not isbytes(raw)"],
        # any failure inside is a PacketError of the parsing phase; never in silent mode
        'PacketError': ["isbytes(raw)", "not silent", "exc.was_error_found_in_unpacking_phase == True", "StackWF(exc)"],
    },
    known={'no OtherException* escapes': dict(id='K12a', case="not silent")},
    ghost_init={'g_parsed': 'False', 'g_pkt': 'None', 'g_raw0': 'raw', 'g_off0': 'offset'},
    ghost_kinds={'g_parsed': 'bool', 'g_pkt': 'dyn', 'g_raw0': 'dyn', 'g_off0': 'int'},
    call_effects={'Packet.unpack_impl': {'g_parsed': 'result >= 0', 'g_pkt': 'arg_self'}},
    # the whole input and the caller's offset are handed on as they are (positions in error reports and the offsets
    # callbacks see are positions in the caller's buffer)
    # (g_raw0 / g_off0: the arguments as they were on entry)
    call_asserts={'Packet.unpack_impl': ["arg_raw == bytesval(g_raw0) and arg_offset == g_off0"]},
    modifies=[], allocates=True, returns='dyn'))

add(Contract(
    'packet:Packet.pack',
    params={'self': 'ref:Packet'},
    ensures=[],
    raises={'PacketError': ["exc.was_error_found_in_unpacking_phase == False", "StackWF(exc)"]},
    known={'no OtherException* escapes': dict(id='K12a', case="True")},
    modifies=['slot(self, *)'], allocates=True, returns='bytes'))

# ---------------------------------------------------------------- equality / repr (C20)
define('FN(self, i)', "ft_name(class_of(self), i)")
# value of a table entry: pseudo-fields (at/shift/aligned, Em) have no slot and count as absent (None)
define('fval(p, n)', "ite(hasslot(p, n), slot(p, n), None)")
add(Contract(
    'packet:Packet.__eq__',
    params={'self': 'ref:Packet', 'other': 'dyn'},
    ensures=[
        # True exactly when other is an instance of self's class and all value-bearing entries compare equal
        "result == (isinst_cls(other, class_of(self)) and forall(0, FT(self), lambda i:"
        "           fval(self, FN(self, i)) == fval(asref(other, 'Packet'), FN(self, i))))",
    ],
    raises={},       # never raises
    loops={0: LoopSpec(["0 <= it",
                        "forall(0, it, lambda j: fval(self, FN(self, j)) == fval(asref(other, 'Packet'), FN(self, j)))"])},
    modifies=[], returns='bool'))

add(Contract(
    'packet:Packet.__repr__',
    params={'self': 'ref:Packet'},
    ensures=[], raises={},       # never raises
    loops={0: LoopSpec(["0 <= it"])},
    modifies=[], allocates=True, returns='str'))

# ---------------------------------------------------------------- Prototype (C13, C19): defaults of references
# nothing mutable reachable from v (one level: its slots) is older than the pre-state
define('deep_fresh(v)',
       "fresh_since(v) and forall_slots_fresh(v)")

add(Contract(
    'packet:Prototype.__init__',
    params={'self': 'ref:Prototype', 'pkt': 'ref:Packet'},
    ensures=[
        # the prototype keeps a snapshot - a pickled blob or a deep copy - never the live packet itself
        "not same(self.template, pkt)",
        "isprim_or_blob(self.template) or deep_fresh(self.template)",
        "self.clone == 'packet:Prototype._clone_from_pickle' or self.clone == 'packet:Prototype._clone_from_live_obj'",
    ],
    modifies=['self.template', 'self.clone'], allocates=True))

add(Contract(
    'packet:Prototype._clone_from_live_obj',
    params={'self': 'ref:Prototype'},
    # a fresh copy that shares no mutable sub-object with the template (and hence with other clones)
    ensures=["isprim(result) or deep_fresh(result)"],
    modifies=[], allocates=True, returns='dyn'))

add(Contract(
    'packet:Prototype._clone_from_pickle',
    params={'self': 'ref:Prototype'},
    ensures=["isprim(result) or deep_fresh(result)"],
    raises={'OtherException*': []},
    modifies=[], allocates=True, returns='dyn'))
