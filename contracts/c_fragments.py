"""Contracts for bisturi/fragments.py (C11)."""
from pyvc.symex import Contract, LoopSpec
from pyvc.specev import define

CONTRACTS = {}


def add(c):
    CONTRACTS[c.name] = c
    return c


# Representation invariant of Fragments.  F = self.fragments (position -> chunk),
# B = self.begin_of_fragments (sorted list of the begin positions; duplicates arise when an
# empty chunk is followed by a chunk at the same position).
define('B(f, i)', "intval(f.begin_of_fragments[i])")
define('WF(f)',
       # B holds ints, pairwise non-decreasing
       "forall(0, len(f.begin_of_fragments), lambda i: isint(f.begin_of_fragments[i]) and not isbool(f.begin_of_fragments[i]))"
       " and forall(lambda i, j: implies(0 <= i and i < j and j < len(f.begin_of_fragments), B(f, i) <= B(f, j)),"
       "            pat=lambda i, j: (f.begin_of_fragments[i], f.begin_of_fragments[j]))"
       # keys(F) = set(B)
       " and forall(0, len(f.begin_of_fragments), lambda i: B(f, i) in f.fragments)"
       " and forall(lambda q: implies(q in f.fragments,"
       "        0 <= f.ghost_idx[q] and f.ghost_idx[q] < len(f.begin_of_fragments) and B(f, f.ghost_idx[q]) == q))"
       # positions are non-negative, chunks do not overlap
       " and forall(lambda q: implies(q in f.fragments, q >= 0))"
       " and forall(lambda p, q: implies(p in f.fragments and q in f.fragments and p < q,"
       "        p + len(f.fragments[p]) <= q))"
       " and len(f.fill) == 1 and allocated(f.begin_of_fragments)")
# byte position p is occupied by a stored chunk
define('occupied(f, p)',
       # (witness hint: the only chunk that can cover p is the one with the largest begin <= p)
       "exists(lambda q: q in f.fragments and q <= p and p < q + len(f.fragments[q]),"
       "       wit=[B(f, bisect_right(f.begin_of_fragments, p) - 1)])")
# state after storing chunk s at position pos: whole-view postcondition (nothing else changes)
define('stored(f, pos, s)',
       "f.current_offset == pos + len(s)"
       " and pos in f.fragments and f.fragments[pos] == s"
       " and forall(lambda q: implies(q != pos, (q in f.fragments) == old(q in f.fragments)"
       "                                        and f.fragments[q] == old(f.fragments[q])))"
       " and f.fill == old(f.fill)")

add(Contract(
    'fragments:Fragments.__init__',
    params={'self': 'ref:Fragments', 'fill': 'bytes'},
    requires=["len(fill) == 1"],
    ensures=["WF(self)", "self.current_offset == 0", "forall(lambda q: not (q in self.fragments))",
             "self.fill == fill", "len(self.begin_of_fragments) == 0", "fresh_since(self.begin_of_fragments)"],
    modifies=['self.*'], allocates=True))
CONTRACTS['fragments:Fragments.__init__'].defaults = {'fill': "b'.'"}

_insert = dict(
    requires=["WF(self)", "position >= 0"],
    ensures=[
        # normal exit: no byte of [position, position+len) was occupied ...
        "forall(position, position + len(string), lambda x: not old(occupied(self, x)))",
        # ... exactly those bytes are stored, the cursor is left at position+len, nothing else altered or dropped
        "stored(self, position, string)",
        "WF(self)",
    ],
    raises={'Exception': [
        # exceptional exit: the buffer is unchanged ...
        "unchanged(self)",
        # ... and (for a non-empty chunk) some byte of [position, position+len) is occupied
        # (witness hints: the position itself, or the begin of the next chunk)
        "implies(len(string) > 0, exists(position, position + len(string), lambda x: old(occupied(self, x)),"
        "        wit=[position, old(B(self, bisect_right(self.begin_of_fragments, position)))]))",
    ]},
    modifies=['self.fragments{*}', 'self.begin_of_fragments[*]', 'self.current_offset', 'self.ghost_idx{*}'])

_BR = "old(bisect_right(self.begin_of_fragments, position))"
_insert_ghost = {'self.ghost_idx':
                 "lambda q: ite(q == position, %(br)s, ite(old(self.ghost_idx[q]) < %(br)s,"
                 " old(self.ghost_idx[q]), old(self.ghost_idx[q]) + 1))" % dict(br=_BR)}

_K11_case = ("exists(lambda q: old(q in self.fragments) and len(old(self.fragments[q])) == 0"
             " and position < q and q < position + len(string))")
# K11: an *empty* chunk that begins strictly inside the new chunk's range makes insert raise
# although no byte is occupied (DESIGN.md section 5)
_K11 = {'raises Exception#1': dict(id='K11', case=_K11_case)}

add(Contract('fragments:Fragments.insert',
             params={'self': 'ref:Fragments', 'position': 'int', 'string': 'bytes'},
             ghost=_insert_ghost, known=_K11, **_insert))

add(Contract(
    'fragments:Fragments.append',
    params={'self': 'ref:Fragments', 'string': 'bytes'},
    requires=["WF(self)", "self.current_offset >= 0"],
    ensures=[e.replace('position', 'old(self.current_offset)') for e in _insert['ensures']],
    raises={'Exception': [e.replace('position', 'old(self.current_offset)') for e in _insert['raises']['Exception']]},
    known={'raises Exception#1': dict(id='K11', case=_K11_case.replace('position', 'old(self.current_offset)'))},
    modifies=_insert['modifies']))

add(Contract(
    'fragments:Fragments.tobytes',
    params={'self': 'ref:Fragments'},
    requires=["WF(self)"],
    ensures=[
        # every stored byte at its position
        "forall(lambda q, t: implies(q in self.fragments and 0 <= t and t < len(self.fragments[q]),"
        "       q + t < len(result) and result[q + t] == self.fragments[q][t]))",
        # the fill byte in every hole
        "forall(0, len(result), lambda p: implies(not occupied(self, p), result[p] == self.fill[0]))",
        # length = largest end position ever inserted
        "forall(lambda q: implies(q in self.fragments, q + len(self.fragments[q]) <= len(result)))",
        "len(result) == 0 or exists(lambda q: q in self.fragments and q + len(self.fragments[q]) == len(result))",
    ],
    loops={0: LoopSpec([
        "0 <= it and it <= dsize(self.fragments)",
        "len(result) == 2 * it",
        "forall(0, len(result), lambda j: isbytes(result[j]))",
        "begin == len(joined(result))",
        "begin == ite(it == 0, 0, skey(self.fragments, it - 1) + len(self.fragments[skey(self.fragments, it - 1)]))",
        # every chunk emitted so far ends at or before `begin`
        "forall(0, it, lambda j: skey(self.fragments, j) >= 0 and"
        "       skey(self.fragments, j) + len(self.fragments[skey(self.fragments, j)]) <= begin,"
        "       pat=lambda j: skey(self.fragments, j))",
        "forall(lambda j, t: implies(0 <= j and j < it and 0 <= t and t < len(self.fragments[skey(self.fragments, j)]),"
        "       joined(result)[skey(self.fragments, j) + t] == self.fragments[skey(self.fragments, j)][t]))",
        "forall(0, begin, lambda p: implies(not occupied(self, p), joined(result)[p] == self.fill[0]))",
    ])},
    modifies=[], allocates=True, returns='bytes', axioms=['join']))
