#!/usr/bin/env python3
"""Regenerate MANIFEST.json from contracts.PROPERTIES (claimed) and NOT_APPLICABLE below."""
import json, os, sys
ROOT = os.path.dirname(os.path.abspath(__file__))
sys.path.insert(0, ROOT)
from contracts import PROPERTIES, MANIFEST_TEXT, NOT_APPLICABLE

checks = []
for pid in sorted(PROPERTIES):
    p = PROPERTIES[pid]
    t = MANIFEST_TEXT[pid]
    checks.append(dict(
        property_id=pid,
        quick_cmd='./check %s --tier quick' % pid,
        thorough_cmd='./check %s --tier thorough' % pid,
        evidence_file='evidence/%s.json' % pid,
        replay_cmd_template='./check %s --replay {path}' % pid,
        engine='pyvc',
        level_claimed=dict(category=p.get('level', 'proof'), text=t['text'], design_ref=t.get('design_ref', 'DESIGN.md 4.' + pid)),
        level_note=t['note'] + (' Bounded, never counted as proved: the class-builder steps (packet_builder.py, outside the VC generator) are checked against run-time postconditions on a seeded corpus of declarations (pyvc/probe_builder.py: 180 declarations quick, 1 800 thorough).' if 'probe_builder' in str(p.get('native_probe', '')) or pid == 'C03' else ''),
        technique=t.get('technique', 'contract-based deductive verification: VCs generated from the real function bodies (python ast) against sidecar contracts, discharged by z3/cvc5'),
    ))
all_ids = ['C%02d' % i for i in range(1, 21)]
na = [dict(property_id=i, reason=NOT_APPLICABLE[i]) for i in all_ids if i not in PROPERTIES]
m = dict(
    version=1,
    setup_cmd='python3-vt -c "import z3, sys; sys.path.insert(0, \'.\'); import pyvc.check" && chmod +x check',
    hooks=dict(guard='BISTURI_VERIF', enable='no hooks: contracts are sidecar files under /verif/contracts, /repo is only read',
               baseline_off_cmd='cd /repo && /venv/bin/python -m pytest -ra -q -p no:cacheprovider --timeout=900 --continue-on-collection-errors',
               source_commits=[], add_only=True),
    engines=[dict(name='pyvc', path='pyvc/', serves_properties=sorted(PROPERTIES),
                  kind_free_text='verification-condition generator over the python ast of the real bisturi sources with sidecar contracts (pre/post/exceptional post/frame/loop invariants/ghost state); obligations discharged by z3 5.1, z3 4.8.12, cvc5')],
    checks=checks,
    not_applicable=na,
    notes='See DESIGN.md (section 0 is the status as built). Exit protocol: 0 held, 1 violation (VIOLATION line), 2 undecided, 3 checker crash. '
          'No hooks in /repo. Genuine defects repaired in /repo by unguarded "fix:" commits (recorded as fixed: entries in known_findings.json): '
          '761fcdc, 747be9b, 9d79700, a99f3c4, b35af89, 14eb703. Known findings (printed as KNOWN-FINDING, witness replayed natively on every run): known_findings.json.',
)
json.dump(m, open(os.path.join(ROOT, 'MANIFEST.json'), 'w'), indent=1)
print('claimed', sorted(PROPERTIES), 'not applicable', [x['property_id'] for x in na])
