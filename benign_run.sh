#!/bin/bash
# Run the affected checks against BEHAVIOUR-PRESERVING edits (false-alarm sweep).  Scratch worktree outside /repo and /verif.
# usage: benign_run.sh <dir with *.diff and *.txt> [prefix]  - stores each edit under benign/<name>/ with result.txt
cd "$(dirname "$0")"
SRC=$1
WT=/tmp/wt/benign
git -C /repo worktree remove --force $WT 2>/dev/null
git -C /repo worktree add -q --detach $WT HEAD || exit 1
for p in $SRC/*.diff; do
  n=$(basename $p .diff)
  [ -n "$2" ] && [[ "$n" != $2* ]] && continue
  mkdir -p benign/$n; cp $p benign/$n/patch.diff; cp $SRC/$n.txt benign/$n/description.txt 2>/dev/null
  : > benign/$n/result.txt
  git -C $WT checkout -q -- . ; git -C $WT clean -fdq
  git -C $WT apply $PWD/benign/$n/patch.diff || { echo "$n patch does not apply" >> benign/$n/result.txt; continue; }
  AFF=$(PYVC_REPO=$WT python3 tools_affected.py --cover)
  echo "$n affected: $AFF" >> benign/$n/result.txt
  for P in $AFF; do
    out=$(PYVC_REPO=$WT PYVC_OUT=/tmp/pyvc_out_benign ./check $P 2>&1 | grep -v -e WARNING -e "(0,0)" -e KNOWN)
    first=$(echo "$out" | grep -m1 -e '^VIOLATION' -e '^UNDECIDED' -e '^CRASH' | sed 's/replay=[^ ]* //' | cut -c1-260)
    nv=$(echo "$out" | grep -c '^VIOLATION')
    echo "$n $P violations=$nv :: ${first:-OK}" >> benign/$n/result.txt
  done
  cat benign/$n/result.txt
done
git -C $WT checkout -q -- . ; git -C /repo worktree remove --force $WT; rm -rf /tmp/pyvc_out_benign
