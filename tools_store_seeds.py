#!/usr/bin/env python3
"""Store confirmed seeds: tools_store_seeds.py <srcdir with Cxx/mK/{patch.diff,demo.py,notes.txt}> <round> <confirm-log>
relevant_checks = the property the seed targets + every claimed property whose functions under contract changed."""
import json, os, shutil, subprocess, sys
ROOT = os.path.dirname(os.path.abspath(__file__))
src, rnd, log = sys.argv[1], int(sys.argv[2]), sys.argv[3]
conf = {}
for l in open(log):
    p = l.split()
    if p and '/' in p[0]:
        conf[p[0]] = l.strip()
head = subprocess.run(['git', '-C', '/repo', 'rev-parse', '--short', 'HEAD'], capture_output=True, text=True).stdout.strip()
wt = '/tmp/wt/storeseed'
subprocess.run(['git', '-C', '/repo', 'worktree', 'remove', '--force', wt], capture_output=True)
subprocess.run(['git', '-C', '/repo', 'worktree', 'add', '-q', '--detach', wt, 'HEAD'], check=True)
try:
    for pid in sorted(os.listdir(src)):
        d0 = os.path.join(src, pid)
        if not os.path.isdir(d0):
            continue
        for m in sorted(os.listdir(d0)):
            d = os.path.join(d0, m)
            key = '%s/%s' % (pid, m)
            line = conf.get(key, '')
            if not os.path.exists(os.path.join(d, 'patch.diff')) or 'clean_demo_exit=0' not in line or 'mutant_demo_exit=0' in line or '40 passed' not in line:
                print('SKIP', key, line)
                continue
            sid = '%s-r%dm%s' % (pid, rnd, m[1:])
            out = os.path.join(ROOT, 'seeded', sid)
            os.makedirs(out, exist_ok=True)
            shutil.copy(os.path.join(d, 'patch.diff'), os.path.join(out, 'patch.diff'))
            shutil.copy(os.path.join(d, 'demo.py'), os.path.join(out, 'demo.py'))
            subprocess.run(['git', '-C', wt, 'checkout', '-q', '--', '.'])
            subprocess.run(['git', '-C', wt, 'apply', os.path.join(out, 'patch.diff')], check=True)
            aff = subprocess.run([sys.executable, os.path.join(ROOT, 'tools_affected.py')], capture_output=True, text=True, cwd=ROOT,
                                 env=dict(os.environ, PYVC_REPO=wt)).stdout.split()
            rel = [pid] + [a for a in aff if a != pid]
            notes = open(os.path.join(d, 'notes.txt')).read() if os.path.exists(os.path.join(d, 'notes.txt')) else ''
            meta = dict(id=sid, breaks_property=pid, round=rnd,
                        author='independent sub-agent given only the property text and a scratch worktree',
                        what_it_needs_to_manifest=notes,
                        confirmed_by_me=dict(how='seeded_confirm.sh in a scratch worktree of /repo HEAD %s: git apply patch.diff; pytest (40 tests); demo.py with and without the patch' % head,
                                             result=line),
                        relevant_checks=rel, rebased=None)
            json.dump(meta, open(os.path.join(out, 'meta.json'), 'w'), indent=1)
            print('stored', sid, rel)
finally:
    subprocess.run(['git', '-C', wt, 'checkout', '-q', '--', '.'])
    subprocess.run(['git', '-C', '/repo', 'worktree', 'remove', '--force', wt])
