"""Forward symbolic execution of the real function bodies against sidecar contracts.

See DESIGN.md section 2.  The executor is written in continuation-passing
style: every construct that can fork (branches, operations that may raise,
calls with exceptional postconditions) calls its continuation once per
feasible outcome.  Obligations are collected on the engine.
"""
import ast, itertools
import z3


def safe_forall(vs, body, patterns=()):
    try:
        return z3.ForAll(vs, body, patterns=list(patterns))
    except z3.Z3Exception:
        return z3.ForAll(vs, body)


def safe_exists(vs, body, patterns=()):
    try:
        return z3.Exists(vs, body, patterns=list(patterns))
    except z3.Z3Exception:
        return z3.Exists(vs, body)

from . import theory as T
from .values import *
from .extract import find_function, strip_docstring

# ------------------------------------------------------------------ exception lattice
EXC_PARENT = {
    'BaseException': None, 'Exception': 'BaseException',
    'ArithmeticError': 'Exception', 'ZeroDivisionError': 'ArithmeticError',
    'OverflowError': 'ArithmeticError', 'LookupError': 'Exception',
    'IndexError': 'LookupError', 'KeyError': 'LookupError', 'TypeError': 'Exception',
    'ValueError': 'Exception', 'UnicodeDecodeError': 'ValueError', 'AttributeError': 'Exception', 'AssertionError': 'Exception',
    'RuntimeError': 'Exception', 'NotImplementedError': 'RuntimeError',
    'StructError': 'Exception', 'PacketError': 'Exception', 'ByteBoundaryError': 'Exception',
    'SyntaxError': 'Exception', 'ImportError': 'Exception', 'StopIteration': 'Exception',
    'OSError': 'Exception', 'FileNotFoundError': 'OSError', 'FileExistsError': 'OSError', 'NameError': 'Exception', 'UnboundLocalError': 'NameError',
}


def exc_le(a, b):
    while a is not None:
        if a == b:
            return True
        a = EXC_PARENT.get(a)
    return False


class Ctx:
    """Dynamic control context (handlers)."""

    def __init__(self, on_return, on_raise, on_break=None, on_continue=None):
        self.on_return = on_return
        self.on_raise = on_raise
        self.on_break = on_break
        self.on_continue = on_continue

    def replace(self, **kw):
        c = Ctx(self.on_return, self.on_raise, self.on_break, self.on_continue)
        for k, v in kw.items():
            setattr(c, k, v)
        return c


class State:
    def __init__(self):
        self.loc = {}
        self.heap = {}
        self.pc = []
        self.path = []
        self.ctx = None
        self.cur_exc = None
        self.ghost = {}
        self.alloc_refs = []        # (ref, 'list' | class name) allocated explicitly in this activation
        self.opaque_alloc = False   # a callee allocated objects we cannot name

    def fork(self, label=None):
        s = State()
        s.loc = dict(self.loc)
        s.heap = dict(self.heap)
        s.pc = list(self.pc)
        s.path = list(self.path)
        s.ctx = self.ctx
        s.cur_exc = self.cur_exc
        s.ghost = dict(self.ghost)
        s.alloc_refs = list(self.alloc_refs)
        s.opaque_alloc = self.opaque_alloc
        if label is not None:
            s.path.append(label)
        return s

    def assume(self, c):
        self.pc.append(c)


class Obligation:
    def __init__(self, name, kind, hyps, goal, info=''):
        self.name = name
        self.kind = kind
        self.hyps = hyps
        self.goal = goal
        self.info = info


class LoopSpec:
    def __init__(self, invariants, kinds=None, ghost=None, modifies=None, ghost_havoc=None):
        self.invariants = invariants
        self.ghost_havoc = ghost_havoc or []    # ghost variables updated inside the loop by call effects
        self.modifies = modifies    # what the loop may write (default: the function's modifies clause)
        self.kinds = kinds or {}
        self.ghost = ghost or {}    # ghost variable -> expression evaluated at the start of every iteration


class Contract:
    def __init__(self, name, params, requires=(), ensures=(), raises=None, modifies=(),
                 allocates=False, loops=None, returns='none', axioms=(), hints=None,
                 role=False, pure=False, noraise_ok=True, ghost=None, cases=None, free_requires=(),
                 known=None, defaults=None, ghost_init=None, varkw=None, ghost_kinds=None,
                 call_asserts=None, call_ghost=None, call_effects=None, target=None, closure=None,
                 body_after_assign=None, locals_in=None, env=False, prefix_checks=None,
                 crash_invariant=None, rely=None, callee_variants=None):
        self.name = name
        self.target = target or name    # qualified name of the code this contract is checked against
        self.closure = closure or {}    # free variables of a lambda / nested function: name -> kind
        # partial verification of a long function: the body is cut (mechanically, on every run) after the last
        # top-level statement that assigns `body_after_assign`; the locals the tail reads (`locals_in`: name -> kind)
        # become unconstrained inputs.  What is dropped is reported in the evidence.
        self.body_after_assign = body_after_assign
        self.locals_in = locals_in or {}
        self.env = env                  # the function talks to the environment model (pyvc/envmodel.py)
        self.prefix_checks = prefix_checks or []   # syntactic facts about the dropped prefix that the preconditions rely on
        # crash safety: this spec must hold after EVERY state-changing operation on the environment (every crash point)
        self.crash_invariant = crash_invariant
        # concurrency (rely/guarantee): before every operation on the environment, other processes may have changed
        # the file system in any way that keeps this spec true (and never touches this process' own temporary files)
        self.rely = rely
        # calls of these contracts made by the body are checked against the named variant instead (same real body,
        # verified separately against the variant: e.g. pack() bodies re-verified for a FragmentsOfRegexps buffer)
        self.callee_variants = callee_variants or {}
        self.params = params            # ordered dict name -> kind
        self.requires = list(requires)
        self.free_requires = list(free_requires)   # assumed on entry, not asserted at call sites
        self.ensures = list(ensures)
        self.raises = raises or {}      # exception class -> list of conditions (spec strings)
        self.modifies = list(modifies)
        self.allocates = allocates
        self.loops = loops or {}
        self.returns = returns
        self.axioms = list(axioms)
        self.hints = hints or {}
        self.role = role
        self.pure = pure
        self.ghost = ghost or {}
        self.ghost_init = ghost_init or {}
        self.varkw = varkw
        self.ghost_kinds = ghost_kinds or {}
        self.call_asserts = call_asserts or {}   # callee short name -> clauses checked at each call
        self.call_effects = call_effects or {}   # callee short name -> ghost assignments performed when it is called
        self.call_ghost = call_ghost or {}       # attribute of self holding a callback -> ghost variable receiving its result
        self.known = known or {}        # clause key ('post#i' / 'raises:Cls#i') -> dict(id=..., case=spec)
        if defaults:
            self.defaults = defaults


_uid = itertools.count()


def fresh(name, sort):
    return z3.Const('%s!%d' % (name, next(_uid)), sort)


def zsimp(e):
    return z3.simplify(e)


def is_true(e):
    return z3.is_true(zsimp(e))


def is_false(e):
    return z3.is_false(zsimp(e))


class Engine:
    def __init__(self, classes, contracts, specfuncs=None, axiom_sets=('bytes', 'pow2')):
        self.classes = classes          # schema
        self.contracts = contracts      # name -> Contract
        self.specfuncs = specfuncs or {}
        self.axiom_sets = list(axiom_sets)
        self.obligations = []
        self.exits = 0
        self.cur = None
        self.extra_hyps = []
        self.ext_pairs = []
        self.paths_ended = []
        self.bound_vars = set()
        self.side_goals = []
        self.frame_axioms = {}

    # ============================================================ schema helpers
    def mro(self, cls):
        out = [cls]
        for b in self.classes.get(cls, {}).get('bases', []):
            out += self.mro(b)
        return out

    def attr_kind(self, cls, attr):
        for c in self.mro(cls):
            k = self.classes.get(c, {}).get('attrs', {}).get(attr)
            if k is not None:
                return c, k
        return None, None

    def method_contract(self, cls, name):
        for c in self.mro(cls):
            mod = self.classes.get(c, {}).get('module')
            q = '%s:%s.%s' % (mod, c, name)
            if q in self.contracts:
                return self.contracts[q]
        return None

    def is_subclass(self, cls, base):
        return base in self.mro(cls)

    # ============================================================ heap
    SORTS = {'int': T.I, 'bool': T.B, 'bytes': T.Bytes, 'str': T.S, 'dyn': T.Val,
             'list': T.I, 'struct': T.SF, 'rx': T.RX, 'kw': T.Kw, 'conf': T.Conf, 'meth': T.S, 'cls': T.I, 'varargs': T.I,
             'arrbool': T.AB, 'arrint': T.AI}

    def kind_sort(self, kind):
        if kind.startswith('ref:') or kind.startswith('func:'):
            return T.I
        return self.SORTS[kind]

    def wrap(self, kind, z):
        if kind == 'int':
            return VInt(z)
        if kind == 'bool':
            return VBool(z)
        if kind == 'bytes':
            return VBytes(z)
        if kind == 'str':
            return VStr(z)
        if kind == 'dyn':
            return VDyn(z)
        if kind == 'list':
            return VList(z)
        if kind == 'struct':
            return VStruct(z)
        if kind == 'rx':
            return VRx(z)
        if kind == 'kw':
            return VKw(z)
        if kind == 'conf':
            return VConf(z)
        if kind in ('arrbool', 'arrint'):
            v = V()
            v.kind, v.z = kind, z
            return v
        if kind == 'cls':
            return VClassSym(z)
        if kind == 'varargs':       # *vargs: an opaque tuple that is only passed along
            v = VSeqAbs(z3.If(z >= 0, z, 0), lambda i: VDyn(z3.Function('vararg', T.I, T.I, T.Val)(z, i)), 'opaque-varargs')
            return v
        if kind.startswith('ref:'):
            return VRef(z, kind[4:])
        if kind.startswith('func:'):
            return VFunc('role', kind[5:], z)
        raise Untranslated('kind ' + kind)

    def unwrap(self, kind, v):
        """Coerce V to the z3 term of the given storage kind."""
        if kind == 'dyn':
            return to_val(v)
        if kind == 'int' and isinstance(v, VInt):
            return v.z
        if kind == 'int' and isinstance(v, VBool):
            return z3.If(v.z, 1, 0)
        if kind == 'bool' and isinstance(v, VBool):
            return v.z
        if kind == 'bytes' and isinstance(v, VBytes):
            return v.z
        if kind == 'str' and isinstance(v, VStr):
            return v.z
        if kind == 'list' and isinstance(v, VList):
            return v.z
        if kind == 'struct' and isinstance(v, VStruct):
            return v.z
        if kind == 'rx' and isinstance(v, VRx):
            return v.z
        if kind == 'kw' and isinstance(v, VKw):
            return v.z
        if kind == 'conf' and isinstance(v, VConf):
            return v.z
        if kind == 'cls' and isinstance(v, VClassSym):
            return v.z
        if kind == 'meth' and isinstance(v, VFunc) and v.tag == 'contract':
            return z3.StringVal(v.payload[0])
        if kind == 'meth' and isinstance(v, VStr):
            return v.z
        if kind.startswith('ref:') and isinstance(v, VRef):
            return v.z
        if kind.startswith('func:') and isinstance(v, VFunc) and v.tag == 'role':
            return v.payload[1]
        if isinstance(v, VDyn):
            # typed storage receives a dynamic value: project (caller must have checked the type)
            if kind == 'int':
                return T.as_int(v.z)
            if kind == 'bytes':
                return T.Val.byval(v.z)
            if kind == 'bool':
                return T.Val.bval(v.z)
            if kind == 'str':
                return T.Val.sval(v.z)
        raise Untranslated('cannot store %s into %s' % (v.kind, kind))

    def heap_get(self, st, key, sort_fn):
        if key not in st.heap:
            raise Untranslated('heap component %s not initialised' % key)
        return st.heap[key]

    def init_heap(self, st):
        st.heap['slots'] = fresh('slots', z3.ArraySort(T.I, T.ASV))
        st.heap['has'] = fresh('has', z3.ArraySort(T.I, T.ASB))
        st.heap['llen'] = fresh('llen', T.AI)
        st.heap['lat'] = fresh('lat', z3.ArraySort(T.I, T.AV))
        st.heap['next'] = fresh('next', T.I)
        for cls, d in self.classes.items():
            for a, k in d.get('attrs', {}).items():
                if k.startswith('dict:'):
                    _, kk, vk = k.split(':')
                    st.heap['%s.%s#has' % (cls, a)] = fresh('%s_%s_has' % (cls, a),
                                                            z3.ArraySort(T.I, z3.ArraySort(self.kind_sort(kk), T.B)))
                    st.heap['%s.%s#val' % (cls, a)] = fresh('%s_%s_val' % (cls, a),
                                                            z3.ArraySort(T.I, z3.ArraySort(self.kind_sort(kk), self.kind_sort(vk))))
                else:
                    st.heap['%s.%s' % (cls, a)] = fresh('%s_%s' % (cls, a),
                                                       z3.ArraySort(T.I, self.kind_sort(k)))
                    if d.get('optional') and a in d['optional']:
                        st.heap['%s.%s?' % (cls, a)] = fresh('%s_%s_set' % (cls, a), T.AB)

    def alloc(self, st, kind='list'):
        r = st.heap['next']
        st.heap['next'] = r + 1
        st.alloc_refs.append((r, kind))
        return r

    def read_attr(self, st, obj, attr):
        """obj: VRef. returns V"""
        owner, kind = self.attr_kind(obj.cls, attr)
        if kind is None:
            raise Untranslated('unknown attribute %s.%s' % (obj.cls, attr))
        if kind.startswith('dict:'):
            _, kk, vk = kind.split(':')
            return VHeapDict(obj.z, '%s.%s' % (owner, attr), kk, vk)
        if kind == 'meth':
            return VFunc('methsel', obj, z3.Select(st.heap['%s.%s' % (owner, attr)], obj.z), attr)
        val = z3.Select(st.heap['%s.%s' % (owner, attr)], obj.z)
        if getattr(self, 'tv_mode', False):
            val = zsimp(val)        # concrete field tables: read the stored constant
        return self.wrap(kind, val)

    def write_attr(self, st, obj, attr, v):
        owner, kind = self.attr_kind(obj.cls, attr)
        if kind is None:
            raise Untranslated('unknown attribute %s.%s' % (obj.cls, attr))
        key = '%s.%s' % (owner, attr)
        if kind.startswith('dict:'):
            if isinstance(v, VDictLit) and not v.items:
                hk = key + '#has'
                _, kk, vk = kind.split(':')
                st.heap[hk] = z3.Store(st.heap[hk], obj.z, z3.K(self.kind_sort(kk), z3.BoolVal(False)))
                return
            raise Untranslated('assignment of a dict attribute')
        st.heap[key] = z3.Store(st.heap[key], obj.z, self.unwrap(kind, v))
        if key + '?' in st.heap:
            st.heap[key + '?'] = z3.Store(st.heap[key + '?'], obj.z, True)

    def slot_get(self, st, pkt_z, name_z):
        return z3.Select(z3.Select(st.heap['slots'], pkt_z), name_z)

    def slot_has(self, st, pkt_z, name_z):
        return z3.Select(z3.Select(st.heap['has'], pkt_z), name_z)

    def slot_set(self, st, pkt_z, name_z, val_z):
        st.heap['slots'] = z3.Store(st.heap['slots'], pkt_z,
                                    z3.Store(z3.Select(st.heap['slots'], pkt_z), name_z, val_z))
        st.heap['has'] = z3.Store(st.heap['has'], pkt_z,
                                  z3.Store(z3.Select(st.heap['has'], pkt_z), name_z, True))

    def llen(self, st, l):
        return z3.Select(st.heap['llen'], l)

    def lat(self, st, l, i):
        return z3.Select(z3.Select(st.heap['lat'], l), i)

    def new_list(self, st, items=()):
        r = self.alloc(st)
        arr = z3.K(T.I, T.Val.VN)
        for n, it in enumerate(items):
            arr = z3.Store(arr, n, to_val(it))
        st.heap['llen'] = z3.Store(st.heap['llen'], r, len(items))
        st.heap['lat'] = z3.Store(st.heap['lat'], r, arr)
        return VList(r)

    # ============================================================ obligations
    AXIOM_TRIGGERS = {
        'bytes': {'blen', 'bat', 'bslice', 'bconcat', 'brepeat', 'bsingle', 'bempty', 'bjoin', 'bval', 'bofint',
                  'bfind', 'bmatch', 'Bytes'},
        'pow2': {'pow2'}, 'find': {'bfind', 'bmatch'}, 'join': {'bjoin'}, 'intbytes': {'bval', 'bofint'},
        'regex': {'rx_found', 'rx_start', 'rx_end', 'DOLLAR'}, 'bitops': {'band', 'bor', 'bxor'},
        'divmod': set(),
    }

    def axioms(self):
        out = []
        for s in self.axiom_sets:
            out += T.AXIOM_SETS[s]()
        return out

    def symbols_in(self, exprs):
        out, seen, todo = set(), set(), list(exprs)
        while todo:
            t = todo.pop()
            i = t.get_id()
            if i in seen:
                continue
            seen.add(i)
            if z3.is_app(t):
                out.add(t.decl().name())
                if t.sort() == T.Bytes:
                    out.add('Bytes')
                todo.extend(t.children())
            elif z3.is_quantifier(t):
                todo.append(t.body())
        return out

    def axioms_for(self, exprs):
        """Only the axiom sets whose symbols occur in the obligation (keeps queries small)."""
        syms = self.symbols_in(exprs)
        out, used = [], []
        if any(s.startswith('tup') for s in syms):
            from .values import tuple_axioms
            out += tuple_axioms()
            used.append('tuples')
        for name, fn in T.AXIOM_SETS.items():
            trig = self.AXIOM_TRIGGERS.get(name, set())
            if trig & syms:
                out += fn()
                used.append(name)
        return out, used

    def add_obligation(self, st, kind, label, goal, info='', split=True):
        if split and z3.is_and(goal) and len(goal.children()) > 1:
            for i, g in enumerate(goal.children()):
                self.add_obligation(st, kind, '%s.%d' % (label, i), g, info, split=True)
            return
        if split and z3.is_implies(goal) and z3.is_and(goal.children()[1]) and len(goal.children()[1].children()) > 1:
            a, b = goal.children()
            for i, g in enumerate(b.children()):
                self.add_obligation(st, kind, '%s.%d' % (label, i), z3.Implies(a, g), info, split=True)
            return
        name = '%s/%s/%s' % (self.cur.name, '.'.join(st.path) or '-', label)
        if is_true(goal):
            # still recorded (counts as trivially discharged), keeps obligation names stable
            self.obligations.append(Obligation(name, kind, [], z3.BoolVal(True), info))
            return
        self.obligations.append(Obligation(name, kind, list(st.pc) + list(self.extra_hyps), goal, info))

    # ============================================================ truthiness / coercions
    def truth(self, st, v):
        if isinstance(v, VBool):
            return v.z
        if isinstance(v, VInt):
            return v.z != 0
        if isinstance(v, VBytes):
            return T.blen(v.z) > 0
        if isinstance(v, VNone):
            return z3.BoolVal(False)
        if isinstance(v, VStr):
            return z3.Length(v.z) > 0
        if isinstance(v, VList):
            return self.llen(st, v.z) > 0
        if isinstance(v, (VRef, VFunc, VStruct, VRx)):
            return z3.BoolVal(True)
        if isinstance(v, VTuple):
            return z3.BoolVal(len(v.items) > 0)
        if isinstance(v, VMatch):
            return T.rx_found(v.rx, v.buf)
        if isinstance(v, VHeapDict):
            return self.dict_nonempty(st, v)
        if isinstance(v, VSeqAbs):
            return v.n > 0
        if isinstance(v, VDyn):
            z = v.z
            return z3.If(T.Val.is_VI(z), T.Val.ival(z) != 0,
                   z3.If(T.Val.is_VB(z), T.Val.bval(z),
                   z3.If(T.Val.is_VN(z), False,
                   z3.If(T.Val.is_VBy(z), T.blen(T.Val.byval(z)) > 0,
                   z3.If(T.Val.is_VL(z), self.llen(st, T.Val.lval(z)) > 0,
                   z3.If(T.Val.is_VS(z), z3.Length(T.Val.sval(z)) > 0, True))))))
        raise Untranslated('truth of %s' % v.kind)

    dnonempty = None

    def dict_nonempty(self, st, d):
        has = z3.Select(st.heap[d.key + '#has'], d.owner)
        f = z3.Function('dnonempty_' + d.kkind, has.sort(), T.B)
        w = z3.Function('dwit_' + d.kkind, has.sort(), self.kind_sort(d.kkind))
        k = z3.Const('k', self.kind_sort(d.kkind))
        # instances of the defining axioms for this array term
        self.extra_hyps.append(safe_forall([k], z3.Implies(z3.Select(has, k), f(has)), patterns=[z3.Select(has, k)]))
        self.extra_hyps.append(z3.Implies(f(has), z3.Select(has, w(has))))
        return f(has)

    def as_int(self, v):
        """returns (z3 Int, condition under which v is NOT usable as an int)"""
        if isinstance(v, VInt):
            return v.z, z3.BoolVal(False)
        if isinstance(v, VBool):
            return z3.If(v.z, 1, 0), z3.BoolVal(False)
        if isinstance(v, VDyn):
            return T.as_int(v.z), z3.Not(T.is_intlike(v.z))
        return z3.IntVal(0), z3.BoolVal(True)

    def as_bytes(self, v):
        if isinstance(v, VBytes):
            return v.z, z3.BoolVal(False)
        if isinstance(v, VDyn):
            return T.Val.byval(v.z), z3.Not(T.Val.is_VBy(v.z))
        return T.bempty, z3.BoolVal(True)

    # ============================================================ primitive operations
    def py_eq(self, st, a, b):
        """z3 Bool for python ``a == b`` (None when unsupported)."""
        if isinstance(a, VNone) and isinstance(b, VNone):
            return z3.BoolVal(True)
        if isinstance(a, (VInt, VBool)) and isinstance(b, (VInt, VBool)):
            return self.as_int(a)[0] == self.as_int(b)[0]
        if isinstance(a, VBytes) and isinstance(b, VBytes):
            self.ext_pairs.append((a.z, b.z))
            return a.z == b.z
        if isinstance(a, VStr) and isinstance(b, VStr):
            return a.z == b.z
        if isinstance(a, VFunc) and isinstance(b, VStr) and a.tag == 'methsel':
            return a.payload[1] == b.z
        if isinstance(a, VStruct) and isinstance(b, VStruct):
            return a.z == b.z
        if isinstance(a, VClassSym) and isinstance(b, VClassSym):
            return a.z == b.z
        if isinstance(a, VList) and isinstance(b, VList):
            return None
        if isinstance(a, VRef) and isinstance(b, VRef):
            return a.z == b.z
        if isinstance(a, VTuple) and isinstance(b, VTuple):
            if len(a.items) != len(b.items):
                return z3.BoolVal(False)
            return z3.And([self.py_eq(st, x, y) for x, y in zip(a.items, b.items)] + [z3.BoolVal(True)])
        if isinstance(a, VDyn) or isinstance(b, VDyn):
            try:
                za, zb = to_val(a), to_val(b)
            except Untranslated:
                return None
            prim = lambda z: z3.Or(T.Val.is_VI(z), T.Val.is_VB(z), T.Val.is_VN(z), T.Val.is_VBy(z), T.Val.is_VS(z))
            intl = T.is_intlike
            veq = z3.Function('val_eq', st.heap['slots'].sort(), st.heap['llen'].sort(),
                              st.heap['lat'].sort(), T.Val, T.Val, T.B)
            # One formula for every comparison that involves a dynamically typed value:
            # identical values are equal (python compares identity first for containers; NaN-like
            # objects are outside the value model); ints/bools compare numerically; two
            # primitives (int, bool, None, bytes, str) compare structurally; anything involving an
            # object is decided by that object's __eq__ (uninterpreted val_eq over the packet heap).
            if isinstance(a, VTuple) or isinstance(b, VTuple):
                return za == zb     # tuples are values of an injective constructor (elementwise structural equality)
            for typed in (a, b):
                if isinstance(typed, VBytes):
                    other = zb if typed is a else za
                    self.ext_pairs.append((T.Val.byval(other), typed.z))
            return z3.If(za == zb, True,
                   z3.If(z3.And(intl(za), intl(zb)), T.as_int(za) == T.as_int(zb),
                         z3.If(z3.And(prim(za), prim(zb)), False,
                               # plain functions compare by identity (with each other and with primitives)
                               z3.If(z3.Or(z3.And(T.Val.is_VF(za), z3.Or(T.Val.is_VF(zb), prim(zb))),
                                           z3.And(T.Val.is_VF(zb), prim(za))), False,
                                     veq(st.heap['slots'], st.heap['llen'], st.heap['lat'], za, zb)))))
        # different static kinds
        prims = (VInt, VBool, VBytes, VStr, VNone)
        if isinstance(a, prims) and isinstance(b, prims):
            return z3.BoolVal(False)
        return None

    def compare(self, st, op, a, b):
        """returns (VBool, raises)"""
        raises = []
        if isinstance(op, (ast.Eq, ast.NotEq)):
            e = self.py_eq(st, a, b)
            if e is None:
                raise Untranslated('== between %s and %s' % (a.kind, b.kind))
            return VBool(e if isinstance(op, ast.Eq) else z3.Not(e)), raises
        if isinstance(op, (ast.Is, ast.IsNot)):
            if isinstance(a, VNone) or isinstance(b, VNone):
                o = b if isinstance(a, VNone) else a
                if isinstance(o, VNone):
                    e = z3.BoolVal(True)
                elif isinstance(o, VDyn):
                    e = T.Val.is_VN(o.z)
                else:
                    e = z3.BoolVal(False)
            elif isinstance(a, VRef) and isinstance(b, VRef):
                e = a.z == b.z
            elif isinstance(a, VBool) and isinstance(b, VBool):
                e = a.z == b.z
            else:
                raise Untranslated('is between %s and %s' % (a.kind, b.kind))
            return VBool(e if isinstance(op, ast.Is) else z3.Not(e)), raises
        if isinstance(op, (ast.Lt, ast.LtE, ast.Gt, ast.GtE)):
            if isinstance(a, (VInt, VBool, VDyn)) and isinstance(b, (VInt, VBool, VDyn)):
                x, cx = self.as_int(a)
                y, cy = self.as_int(b)
                bad = zsimp(z3.Or(cx, cy))
                if not is_false(bad):
                    raises.append((bad, 'TypeError'))
                e = {ast.Lt: x < y, ast.LtE: x <= y, ast.Gt: x > y, ast.GtE: x >= y}[type(op)]
                return VBool(e), raises
            raise Untranslated('ordering between %s and %s' % (a.kind, b.kind))
        if isinstance(op, (ast.In, ast.NotIn)):
            if isinstance(b, VConf):
                if isinstance(a, VDyn):
                    e = z3.And(T.Val.is_VS(a.z), z3.Select(T.Conf.chas(b.z), T.Val.sval(a.z)))
                else:
                    e = z3.Select(T.Conf.chas(b.z), a.z)
            elif isinstance(b, VTuple):
                es = []
                for it in b.items:
                    e = self.py_eq(st, a, it)
                    if e is None:
                        raise Untranslated('in: == unsupported')
                    es.append(e)
                e = z3.Or(es + [z3.BoolVal(False)])
            elif isinstance(b, VHeapDict):
                e = z3.Select(z3.Select(st.heap[b.key + '#has'], b.owner), self.unwrap(b.kkind, a))
            elif isinstance(b, VStr) and isinstance(a, VStr):
                # substring test: an opaque relation of the two texts (true for equal texts)
                sub = z3.Function('str_contains', T.S, T.S, T.B)(b.z, a.z)
                e = z3.Or(a.z == b.z, sub)
            elif isinstance(b, VBytes) and isinstance(a, VBytes):
                sub = z3.Function('bytes_contains', T.Bytes, T.Bytes, T.B)(b.z, a.z)
                e = z3.Or(a.z == b.z, sub)
            else:
                raise Untranslated('in on %s' % b.kind)
            return VBool(e if isinstance(op, ast.In) else z3.Not(e)), raises
        raise Untranslated('comparison ' + type(op).__name__)

    def binop(self, st, op, a, b):
        """returns (V, raises)"""
        raises = []
        # bytes
        if isinstance(op, ast.Add) and (isinstance(a, VBytes) or isinstance(b, VBytes)):
            x, cx = self.as_bytes(a)
            y, cy = self.as_bytes(b)
            bad = zsimp(z3.Or(cx, cy))
            if not is_false(bad):
                raises.append((bad, 'TypeError'))
            if y.eq(T.bempty):
                return VBytes(x), raises
            if x.eq(T.bempty):
                return VBytes(y), raises
            return VBytes(T.bconcat(x, y)), raises
        if isinstance(op, ast.Mult) and (isinstance(a, VBytes) or isinstance(b, VBytes)):
            s, n = (a, b) if isinstance(a, VBytes) else (b, a)
            nz, cn = self.as_int(n)
            if not is_false(cn):
                raises.append((cn, 'TypeError'))
            return VBytes(T.brepeat(s.z, nz)), raises
        if isinstance(op, ast.Mult) and (isinstance(a, VStr) or isinstance(b, VStr)):
            other = b if isinstance(a, VStr) else a
            _, bad = self.as_int(other)
            if not is_false(bad):
                raises.append((bad, 'TypeError'))
            return VStr(fresh('strmul', T.S)), raises
        if isinstance(op, ast.Add) and isinstance(a, VStr) and isinstance(b, VStr):
            if a.py is not None and b.py is not None:
                return VStr(a.py + b.py), raises
            return VStr(z3.Concat(a.z, b.z)), raises
        if isinstance(op, ast.Mod) and isinstance(a, VStr):
            # the formatted text is a deterministic (uninterpreted) function of format and arguments
            try:
                arg = to_val(b)
            except Untranslated:
                return VStr(fresh('fmt', T.S)), self.format_raises(st, a, b)
            return VStr(z3.Function('strfmt', T.S, T.Val, T.S)(a.z, arg)), self.format_raises(st, a, b)
        if isinstance(op, ast.Add) and isinstance(a, VList) and isinstance(b, VList):
            # list concatenation creates a new list
            r = self.alloc(st)
            la, lb = self.llen(st, a.z), self.llen(st, b.z)
            j = z3.Int('j')
            arr = z3.Lambda([j], z3.If(j < la, self.lat(st, a.z, j), self.lat(st, b.z, j - la)))
            st.heap['llen'] = z3.Store(st.heap['llen'], r, la + lb)
            st.heap['lat'] = z3.Store(st.heap['lat'], r, arr)
            return VList(r), raises
        # ints
        if isinstance(a, (VInt, VBool, VDyn)) and isinstance(b, (VInt, VBool, VDyn)):
            x, cx = self.as_int(a)
            y, cy = self.as_int(b)
            bad = zsimp(z3.Or(cx, cy))
            if not is_false(bad):
                raises.append((bad, 'TypeError'))
            if isinstance(op, ast.Add):
                return VInt(x + y), raises
            if isinstance(op, ast.Sub):
                return VInt(x - y), raises
            if isinstance(op, ast.Mult):
                return VInt(x * y), raises
            if isinstance(op, ast.Mod):
                if not is_false(y == 0):
                    raises.append((y == 0, 'ZeroDivisionError'))
                return VInt(T.py_mod(x, y)), raises
            if isinstance(op, ast.FloorDiv):
                if not is_false(y == 0):
                    raises.append((y == 0, 'ZeroDivisionError'))
                return VInt(T.py_floordiv(x, y)), raises
            if isinstance(op, ast.Pow):
                if z3.is_int_value(zsimp(x)) and zsimp(x).as_long() == 2:
                    if st is not None and self.feasible(st, y < 0):
                        raise Untranslated('2**negative yields a float')
                    return VInt(T.pow2(y)), raises
                raise Untranslated('** with base other than 2')
            if isinstance(op, ast.LShift):
                if not is_false(y < 0):
                    raises.append((y < 0, 'ValueError'))
                return VInt(T.mulf(x, T.pow2(y))), raises
            if isinstance(op, ast.RShift):
                if not is_false(y < 0):
                    raises.append((y < 0, 'ValueError'))
                return VInt(T.py_floordiv(x, T.pow2(y))), raises
            if isinstance(op, ast.BitAnd):
                return VInt(band(x, y)), raises
            if isinstance(op, ast.BitOr):
                return VInt(bor(x, y)), raises
            if isinstance(op, ast.BitXor):
                return VInt(bxor(x, y)), raises
        raise Untranslated('binop %s on %s,%s' % (type(op).__name__, a.kind, b.kind))

    def format_raises(self, st, fmt, args):
        """`fmt % args`: with a constant format the conversion specifiers are checked against the
        arguments (%x %i %d %o need numbers); a format string that is not a literal may contain
        anything, so the operation may raise (ValueError/TypeError)."""
        import re as _re
        if fmt.py is None:
            return [(z3.Bool('fmt_raises!%d' % next(_uid)), 'ValueError')]
        specs = _re.findall(r'%(?:\((\w+)\))?[#0\- +]*\d*(?:\.\d+)?([a-zA-Z%])', fmt.py)
        specs = [s for s in specs if s[1] != '%']
        items = args.items if isinstance(args, VTuple) else [args]
        if any(nm for nm, _ in specs):
            return []       # mapping form: only used with literal dicts in messages
        if len(items) != len(specs):
            if isinstance(args, VTuple) or len(specs) != 1:
                return [(z3.BoolVal(True), 'TypeError')]
        raises = []
        for (nm, conv), it in zip(specs, items):
            if conv in 'xXiduo':
                _, bad = self.as_int(it)
                if not is_false(bad):
                    raises.append((bad, 'TypeError'))
        return raises

    def norm_index(self, i, n):
        return z3.If(i < 0, i + n, i)

    def clamp_slice(self, lo, hi, n):
        """python slice bounds -> normalised (lo', hi') with 0<=lo'<=hi'<=n"""
        def cl(x):
            x1 = z3.If(x < 0, x + n, x)
            return z3.If(x1 < 0, 0, z3.If(x1 > n, n, x1))
        l = cl(lo) if lo is not None else z3.IntVal(0)
        h = cl(hi) if hi is not None else n
        h = z3.If(h < l, l, h)
        return zsimp(l), zsimp(h)

    def subscript(self, st, base, idx):
        """idx: V or ('slice', lo, hi, step) ; returns (V, raises)"""
        raises = []
        if isinstance(idx, tuple) and idx[0] == 'slice':
            _, lo, hi, step = idx
            if step is not None:
                raise Untranslated('slice step')
            conds = []
            zlo = zhi = None
            if lo is not None:
                zlo, c = self.as_int(lo)
                conds.append(c)
            if hi is not None:
                zhi, c = self.as_int(hi)
                conds.append(c)
            bad = zsimp(z3.Or(conds + [z3.BoolVal(False)]))
            if not is_false(bad):
                raises.append((bad, 'TypeError'))
            if isinstance(base, (VBytes, VDyn)):
                bz, cb = self.as_bytes(base)
                if not is_false(cb):
                    raises.append((cb, 'TypeError'))
                l, h = self.clamp_slice(zlo, zhi, T.blen(bz))
                return VBytes(T.bslice(bz, l, h)), raises
            if isinstance(base, VList):
                n = self.llen(st, base.z)
                l, h = self.clamp_slice(zlo, zhi, n)
                arr = z3.Select(st.heap['lat'], base.z)
                v = VSeqAbs(h - l, lambda i, arr=arr, l=l: VDyn(z3.Select(arr, l + i)), 'listslice')
                v.src = (arr, l, h - l, 'fwd')
                return v, raises
            if isinstance(base, VSeqAbs):
                l, h = self.clamp_slice(zlo, zhi, base.n)
                return VSeqAbs(h - l, lambda i, b=base, l=l: b.elem(l + i), base.tag), raises
            raise Untranslated('slice of %s' % base.kind)
        if isinstance(base, VBytes):
            i, c = self.as_int(idx)
            n = T.blen(base.z)
            if not is_false(c):
                raises.append((c, 'TypeError'))
            raises.append((z3.Or(i >= n, i < -n), 'IndexError'))
            return VInt(T.bat(base.z, self.norm_index(i, n))), raises
        if isinstance(base, VList):
            i, c = self.as_int(idx)
            n = self.llen(st, base.z)
            if not is_false(c):
                raises.append((c, 'TypeError'))
            raises.append((z3.Or(i >= n, i < -n), 'IndexError'))
            return VDyn(self.lat(st, base.z, self.norm_index(i, n))), raises
        if isinstance(base, VSeqAbs):
            i, c = self.as_int(idx)
            raises.append((z3.Or(i >= base.n, i < -base.n), 'IndexError'))
            return base.elem(self.norm_index(i, base.n)), raises
        if isinstance(base, VTuple):
            i, c = self.as_int(idx)
            iz = zsimp(i)
            if z3.is_int_value(iz):
                k = iz.as_long()
                if -len(base.items) <= k < len(base.items):
                    return base.items[k], raises
                raises.append((z3.BoolVal(True), 'IndexError'))
                return VNone(), raises
            raise Untranslated('symbolic tuple index')
        if isinstance(base, VHeapDict):
            kz = self.unwrap(base.kkind, idx)
            has = z3.Select(z3.Select(st.heap[base.key + '#has'], base.owner), kz)
            raises.append((z3.Not(has), 'KeyError'))
            return self.wrap(base.vkind, z3.Select(z3.Select(st.heap[base.key + '#val'], base.owner), kz)), raises
        if isinstance(base, VDyn) and isinstance(idx, VInt) and z3.is_int_value(zsimp(idx.z)) \
                and zsimp(idx.z).as_long() in (0, 1):
            from .values import tuple_parts
            ist, items = tuple_parts(base.z, 2)
            raises.append((z3.Not(ist), 'TypeError'))
            return VDyn(items[zsimp(idx.z).as_long()]), raises
        if isinstance(base, VConf):
            if isinstance(idx, VDyn):       # a key that is not a str is never present
                key = T.Val.sval(idx.z)
                raises.append((z3.Not(z3.And(T.Val.is_VS(idx.z), z3.Select(T.Conf.chas(base.z), key))), 'KeyError'))
                return VDyn(z3.Select(T.Conf.cval(base.z), key)), raises
            raises.append((z3.Not(z3.Select(T.Conf.chas(base.z), idx.z)), 'KeyError'))
            return VDyn(z3.Select(T.Conf.cval(base.z), idx.z)), raises
        if isinstance(base, VKw):
            if isinstance(idx, VStr) and idx.py == 'innermost-pkt-pos':
                raises.append((z3.Not(T.Kw.has_ipp(base.z)), 'KeyError'))
                return VInt(T.Kw.ipp(base.z)), raises
            raise Untranslated('k[%r]' % (idx.py if isinstance(idx, VStr) else idx))
        raise Untranslated('subscript of %s' % base.kind)

    # ============================================================ spec evaluation
    def spec(self, st, src, env, old=None):
        node = ast.parse(src, mode='eval').body if isinstance(src, str) else src
        return SpecEval(self, st, env, old).ev(node)

    def spec_bool(self, st, src, env, old=None):
        v = self.spec(st, src, env, old)
        return self.truth(st, v)

    def spec_goal(self, st, src, env, old=None):
        """like spec_bool, for a formula that is to be proved (positive foralls skolemised)"""
        node = ast.parse(src, mode='eval').body if isinstance(src, str) else src
        self.side_goals = []
        g = self.truth(st, SpecEval(self, st, env, old, goal=True).ev(node))
        for h, text in self.side_goals:
            self.add_obligation(st, 'lemma-instance', 'lemma instance: ' + text[:80], h, text)
        self.side_goals = []
        return g

    # ------------------------------------------------------------ cheap feasibility pruning
    def feasible(self, st, cond):
        """False only if pc /\ cond is unsatisfiable (decided by a resource-limited,
        quantifier-free check, deterministic); True means 'maybe'."""
        c = zsimp(cond)
        if z3.is_false(c):
            return False
        s = z3.Solver()
        s.set('rlimit', 200000)
        for h in st.pc:
            s.add(h)
        s.add(c)
        try:
            return s.check() != z3.unsat
        except z3.Z3Exception:
            return True

    def mod_terms_in(self, exprs):
        """(x, d) for every pymod/pyfloordiv application occurring in the given formulas"""
        out, seen, todo = [], set(), list(exprs)
        while todo:
            t = todo.pop()
            i = t.get_id()
            if i in seen:
                continue
            seen.add(i)
            if z3.is_app(t):
                if t.decl().name() in ('pymod', 'pyfloordiv'):
                    x, d = t.children()
                    if not any(x.eq(a) and d.eq(b) for a, b in out):
                        out.append((x, d))
                if t.decl().name() == 'mulf':
                    q, d = t.children()
                    if not any(q.eq(a) and d.eq(b) for a, b in self._mulf_terms):
                        self._mulf_terms.append((q, d))
                todo.extend(t.children())
            elif z3.is_quantifier(t):
                todo.append(t.body())
        return out

    def mod_hyps(self, exprs):
        """Ground defining instances and quotient hints for the symbolic-divisor // and % terms
        occurring in exprs (terms under a binder get the quantified definition instead)."""
        hyps, need_axiom, ground = [], False, []
        self._mulf_terms = []
        for x, d in self.mod_terms_in(exprs):
            if self.has_var(x) or self.has_var(d):
                need_axiom = True
            else:
                ground.append((x, d))
        for x, d in ground:
            hyps.append(T.divmod_def(x, d))
            hyps.append(T.quotient_hint(T.qf(x, d), None, d))
        for i in range(len(ground)):
            for j in range(i + 1, len(ground)):
                d, d2 = ground[i][1], ground[j][1]
                h = T.quotient_hint(T.qf(ground[i][0], d), T.qf(ground[j][0], d2), d)
                hyps.append(h if d.eq(d2) else z3.Implies(d == d2, h))
        # products written by the code (x << s) take part in the quotient reasoning as well
        quots = [(T.qf(x, d), d) for x, d in ground]
        extra = [(q, d) for q, d in self._mulf_terms
                 if not self.has_var(q) and not self.has_var(d) and not any(q.eq(a) and d.eq(b) for a, b in quots)
                 and not (z3.is_app(q) and q.decl().name() == 'pyfloordiv')]
        if len(extra) <= 6:
            for q, d in extra:
                hyps.append(T.quotient_hint(q, None, d))
                for q2, d2 in quots + [e for e in extra if not (e[0].eq(q) and e[1].eq(d))]:
                    h = T.quotient_hint(q, q2, d)
                    hyps.append(h if d.eq(d2) else z3.Implies(d == d2, h))
        if need_axiom:
            hyps += T.divmod_axiom()
        return hyps

    def has_var(self, e):
        """does the term contain a de-Bruijn variable (i.e. it sits under a binder)?"""
        todo, seen = [e], set()
        while todo:
            t = todo.pop()
            i = t.get_id()
            if i in seen:
                continue
            seen.add(i)
            if z3.is_var(t):
                return True
            if z3.is_app(t):
                todo.extend(t.children())
        return False

    def has_bound(self, e):
        todo, seen = [e], set()
        while todo:
            t = todo.pop()
            i = t.get_id()
            if i in seen:
                continue
            seen.add(i)
            if i in self.bound_vars:
                return True
            if z3.is_app(t):
                todo.extend(t.children())
            elif z3.is_quantifier(t):
                todo.append(t.body())
        return False


# ------------------------------------------------------------------ bit operations on Int (DESIGN 2.5)
_band = z3.Function('band', T.I, T.I, T.I)
_bor = z3.Function('bor', T.I, T.I, T.I)
_bxor = z3.Function('bxor', T.I, T.I, T.I)


def band(x, y):
    return _band(x, y)


def bor(x, y):
    return _bor(x, y)


def bxor(x, y):
    return _bxor(x, y)


def bitop_axioms():
    """Mask-shaped facts about &, | on python ints (assumed; cross-checked against CPython).
    With P = pow2, mask(w,s) = (P(w)-1)*P(s):
      x & mask(w,s)        = ((x div P(s)) mod P(w)) * P(s)
      x & (-mask(w,s)-1)   = x - (x & mask(w,s))
      a | b = a + b  when a = u*P(s), 0 <= u < P(w), and b has its [s, s+w) slice equal to zero."""
    x, w, s, a, b = z3.Ints('x w s a b')
    m = (T.pow2(w) - 1) * T.pow2(s)
    ax = []
    ax.append(safe_forall([x, w, s], z3.Implies(z3.And(w >= 0, s >= 0),
                                              _band(x, m) == ((x / T.pow2(s)) % T.pow2(w)) * T.pow2(s)),
                        patterns=[_band(x, m)]))
    ax.append(safe_forall([x, w, s], z3.Implies(z3.And(w >= 0, s >= 0),
                                              _band(x, -m - 1) == x - _band(x, m)),
                        patterns=[_band(x, -m - 1)]))
    ax.append(safe_forall([a, b, w, s], z3.Implies(z3.And(w >= 0, s >= 0, _band(a, m) == a, _band(b, m) == 0),
                                                 _bor(a, b) == a + b),
                        patterns=[z3.MultiPattern(_bor(a, b), T.pow2(w), T.pow2(s))]))
    return ax


T.AXIOM_SETS['bitops'] = bitop_axioms


from .specev import SpecEval  # noqa: E402
from .execute import install   # noqa: E402
install(Engine)
