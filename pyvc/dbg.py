"""Development helper: dump / re-solve single obligations of one function.

  python3-vt -m pyvc.dbg <modules> <function> <substring of obligation name> [-T secs] [-o dir] [-a '<smt assert>']

Writes one .smt2 per matching obligation into the directory (default /tmp/pyvc_dbg) and runs z3-new on it.
Extra `-a` assertions (SMT-LIB text) are appended before (check-sat): a quick way to find the missing fact."""
import sys, os, importlib, subprocess, time
from .run import gen_function
from .solve import group_texts, Z3NEW


def main():
    from contracts import schema
    args = sys.argv[1:]
    mods, fn, sub = args[0].split(','), args[1], args[2]
    T = int(args[args.index('-T') + 1]) if '-T' in args else 30
    out = args[args.index('-o') + 1] if '-o' in args else '/tmp/pyvc_dbg'
    extra = [args[i + 1] for i, a in enumerate(args) if a == '-a']
    os.makedirs(out, exist_ok=True)
    contracts = {}
    for m in mods:
        contracts.update(importlib.import_module('contracts.' + m).CONTRACTS)
    r = gen_function(schema.CLASSES, contracts, fn)
    if r['error']:
        print(r['error'])
        return
    n = 0
    for g in r['groups']:
        for oname, kind, text in group_texts(g):
            if sub in oname:
                p = os.path.join(out, 'o%d.smt2' % n)
                k = text.rindex('(check-sat)')
                open(p, 'w').write(text[:k] + '\n'.join(extra) + '\n(check-sat)\n')
                t0 = time.time()
                try:
                    res = subprocess.run([Z3NEW, '-T:%d' % T, '-smt2', p], capture_output=True, text=True, timeout=T + 5).stdout.strip()[:200]
                except subprocess.TimeoutExpired:
                    res = 'timeout'
                print('%s  %s  %.1fs  %s' % (p, res.splitlines()[0] if res else '?', time.time() - t0, oname))
                n += 1
    print(n, 'obligations matched')


if __name__ == '__main__':
    main()
