"""Concretisation and native replay of refuted obligations (DESIGN.md 2.7/2.8): the failing
clause is searched for on executions of the *real* function with the run-time twin."""
import json, os, subprocess, sys, tempfile

ROOT = os.path.dirname(os.path.dirname(os.path.abspath(__file__)))


def contract_spec(c):
    return dict(requires=list(c.requires) + list(c.free_requires), ensures=list(c.ensures),
                raises={k: list(v) for k, v in c.raises.items()}, returns=c.returns)


def run_twin(function, contract, seed=0, budget=400, want=None, timeout=120):
    from pyvc import extract
    spec = dict(function=function, contract=contract_spec(contract), seed=seed, budget=budget, want=want)
    fd, fn = tempfile.mkstemp(suffix='.json', prefix='pyvc_twin_')
    with os.fdopen(fd, 'w') as f:
        json.dump(spec, f)
    env = dict(os.environ)
    env['PYTHONPATH'] = extract.REPO + os.pathsep + ROOT
    env['PYTHONDONTWRITEBYTECODE'] = '1'
    try:
        p = subprocess.run([sys.executable, '-m', 'pyvc.twin', fn], cwd=ROOT, env=env, capture_output=True,
                           text=True, timeout=timeout)
        out = p.stdout.strip().splitlines()
        if not out:
            return dict(error='twin produced no output: ' + p.stderr[-2000:])
        return json.loads(out[-1])
    except subprocess.TimeoutExpired:
        return dict(error='twin timeout')
    except Exception as e:
        return dict(error='twin failed: %r' % (e,))
    finally:
        try:
            os.unlink(fn)
        except OSError:
            pass


def replay_probe(violation, seed):
    """a violation found by a native probe (bounded): run the probe again on the current tree and look for the same failure"""
    import json, subprocess
    from pyvc import extract
    ti = violation.get('twin_input') or {}
    root = os.path.dirname(os.path.dirname(os.path.abspath(__file__)))
    probe = 'probe_builder' if ti.get('step') else None
    if probe is None:
        return None
    try:
        pr = subprocess.run(['/venv/bin/python', os.path.join(root, 'pyvc', probe + '.py'), extract.REPO, str(seed), '600'],
                            capture_output=True, text=True, timeout=1800)
        pd = json.loads(pr.stdout.strip().splitlines()[-1])
    except Exception as e:
        return dict(reproduced=False, note='probe did not run: %r' % (e,))
    for f in pd.get('failures', []):
        if f.get('step') == ti.get('step') and f.get('clause') == ti.get('clause'):
            return dict(reproduced=True, function=violation.get('function'), failing_input=f,
                        note='postcondition of the class-builder step evaluated to False while the real metaclass built this declaration')
    return dict(reproduced=False, note='the postcondition did not fail on this tree (bounded corpus, %d scenarios)' % len(pd.get('scenarios', [])))


def try_replay(pid, violation, seed=0):
    from pyvc.check import load_contracts
    fn = violation.get('function', '')
    if (violation.get('twin_input') or {}).get('step'):
        return replay_probe(violation, seed)
    contracts = load_contracts()
    c = contracts.get(fn)
    if c is None:
        return dict(reproduced=False, note='no contract object for %s' % fn)
    r = run_twin(fn, c, seed=seed, budget=3000, want=violation.get('clause'))
    if r.get('error'):
        return dict(reproduced=False, note=r['error'])
    if r.get('found'):
        return dict(reproduced=True, function=fn, failing_input=r['found'], valid_cases=r.get('valid_cases'),
                    note='clause evaluated to False on an execution of the real function')
    return dict(reproduced=False, valid_cases=r.get('valid_cases'), outcomes=r.get('outcomes'),
                note='clause did not fail on %s executions of the real function (bounded search)' % r.get('valid_cases'))
