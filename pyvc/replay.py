"""Concretisation and native replay of counter-examples (DESIGN.md 2.7).  Per-function
replayers search for a concrete failing input of the *real* code, guided by the failed clause."""
import json, os


REPLAYERS = {}


def try_replay(pid, violation, seed=0):
    fn = violation.get('function', '')
    r = REPLAYERS.get(fn)
    if r is None:
        return dict(reproduced=False, note='no replayer for %s; the refuted obligation and solver output are in this file' % fn)
    return r(violation, seed)
