"""Environment contracts for the generated-code cache (property C15).

The tail of CodeGenerator.generate_code talks to the operating system and to the import system.
None of that is code of the repository: it is modelled here by ASSUMED contracts over ghost state
(listed in every evidence file, cross-checked natively by pyvc/env_probe.py on concrete scenarios):

  fs_exists, fs_content, fs_stamp : path -> does the file exist / its content / its (mtime-second, size) stamp
  pyc_exists, pyc_code, pyc_stamp : SOURCE path -> is there cached bytecode for it / the source text it was
                                    compiled from / the stamp of the source recorded in it
  mod_loaded, mod_ref             : module name -> is it in sys.modules / its module object

  open(p, 'w')           truncates p (content := empty), p gets a NEW stamp that MAY EQUAL the old one
                         (same second, same size - the stale-bytecode case of the statement)
  f.write(s)             appends the chunk s (content is a free constructor term: cempty, capp(c, s))
  os.path.exists(p)      fs_exists[p]; for a bytecode path: pyc_exists[srcof(p)]
  os.remove(p)           removes the file (or the bytecode when p is a bytecode path)
  load_module(name, p)   executes, INTO THE EXISTING sys.modules ENTRY IF THERE IS ONE (names defined earlier
                         survive unless redefined), the cached bytecode when its recorded stamp equals the
                         stamp of the source, else the source; may write bytecode afterwards unless
                         sys.dont_write_bytecode; sets __cached__ = cachepath(p); executing a text may raise
                         ImportError or any other exception (exec_outcome), decided by the text alone
  hashlib.sha1           an accumulator; hexdigest is injective on accumulated chunk sequences (collision-free,
                         and the two code strings are self-delimiting: assumed)
  os.path.*, inspect.getfile, '%' formatting, f-strings: deterministic uninterpreted string functions

What a text defines when executed: defines(text, name), defval(text, name) (uninterpreted); the shape axioms
for texts written by generate_code itself are in contracts/c_codegen.py (assumed about the dropped prefix
of the function, which is the subject of C03)."""
import z3
from . import theory as T
from .values import *

Content = z3.DeclareSort('Content')
HAcc = z3.DeclareSort('HAcc')
cempty = z3.Const('cempty', Content)
capp = z3.Function('capp', Content, T.S, Content)
hempty = z3.Const('hempty', HAcc)
hupd = z3.Function('hupd', HAcc, T.Bytes, HAcc)
sha1hex = z3.Function('sha1hex', HAcc, T.S)
utf8 = z3.Function('utf8', T.S, T.Bytes)
defines = z3.Function('defines', Content, T.S, T.B)
defval = z3.Function('defval', Content, T.S, T.Val)
exec_outcome = z3.Function('exec_outcome', Content, T.I)     # 0 ok, 1 ImportError, 2 any other exception
is_tmp_path = z3.Function('is_tmp_path', T.S, T.B)      # names handed out by tempfile (never the name of a module or bytecode file)
cachepath = z3.Function('cachepath', T.S, T.S)
is_cachepath = z3.Function('is_cachepath', T.S, T.B)
srcof = z3.Function('srcof', T.S, T.S)

ASC = z3.ArraySort(T.S, Content)
ASI = z3.ArraySort(T.S, T.I)

ENV_KEYS = {'fs_exists': T.ASB, 'fs_content': ASC, 'fs_stamp': ASI,
            'pyc_exists': T.ASB, 'pyc_code': ASC, 'pyc_stamp': ASI,
            'mod_loaded': T.ASB, 'mod_ref': ASI, 'dir_exists': T.ASB}


class VArr(V):
    kind = 'arr'

    def __init__(self, z):
        self.z = z


class VContent(V):
    kind = 'content'

    def __init__(self, z):
        self.z = z


def fresh(name, sort):
    from .symex import fresh as f
    return f(name, sort)


def env_get(st, key):
    return st.ghost['env.' + key].z


def env_set(st, key, z):
    st.ghost['env.' + key] = VArr(z)


def env_axioms():
    """inverse-function axioms (E-matching friendly): injectivity of the free constructors"""
    c = z3.Const('c!e', Content)
    s, s2 = z3.Strings('s!e s2!e')
    h = z3.Const('h!e', HAcc)
    b = z3.Const('b!e', T.Bytes)
    cprev = z3.Function('cprev', Content, Content)
    clast = z3.Function('clast', Content, T.S)
    hprev = z3.Function('hprev', HAcc, HAcc)
    hlast = z3.Function('hlast', HAcc, T.Bytes)
    unsha = z3.Function('unsha', T.S, HAcc)
    unutf8 = z3.Function('unutf8', T.Bytes, T.S)
    ax = [
        z3.ForAll([c, s], z3.And(cprev(capp(c, s)) == c, clast(capp(c, s)) == s, capp(c, s) != cempty), patterns=[capp(c, s)]),
        z3.ForAll([h, b], z3.And(hprev(hupd(h, b)) == h, hlast(hupd(h, b)) == b, hupd(h, b) != hempty), patterns=[hupd(h, b)]),
        z3.ForAll([h], unsha(sha1hex(h)) == h, patterns=[sha1hex(h)]),
        z3.ForAll([s], unutf8(utf8(s)) == s, patterns=[utf8(s)]),
        z3.ForAll([s], z3.And(srcof(cachepath(s)) == s, is_cachepath(cachepath(s))), patterns=[cachepath(s)]),
    ]
    return ax


# ---------------------------------------------------------------------------------------------- engine methods
def m_env_init(self, st):
    for key, sort in ENV_KEYS.items():
        env_set(st, key, fresh('env_' + key, sort))
    st.ghost['env.dont_write_bytecode'] = VBool(fresh('sys_dont_write_bytecode', T.B))
    self.extra_hyps += env_axioms()
    self.used_assumptions.add('environment contracts of pyvc/envmodel.py: os.path / os.remove / open(w) / write / '
                              'SourceFileLoader.load_module (bytecode reuse by (mtime, size) stamp, re-execution into an existing '
                              'sys.modules entry) / hashlib.sha1 (collision-free) / deterministic path and string formatting functions (assumed; '
                              'cross-checked natively on concrete scenarios by pyvc/env_probe.py, bounded)')


def m_env_crash_point(self, st, what):
    """the process may die right after this operation: the crash invariant must hold here"""
    c = self.cur
    if c is None or not getattr(c, 'crash_invariant', None):
        return
    envn = dict(self.fn_env)
    envn.update({g: v for g, v in st.ghost.items() if isinstance(v, V)})
    s2 = st.fork('crash-after:' + what)
    g = self.spec_goal(s2, c.crash_invariant, envn, old=self.fn_pre)
    self.add_obligation(s2, 'crash-point', 'crash invariant after %s' % what, g, c.crash_invariant)


def m_env_interfere(self, st):
    """rely: other processes running the same code may have changed the file system since the last operation"""
    c = self.cur
    if c is None or not getattr(c, 'rely', None):
        return
    self.used_assumptions.add('RELY (concurrency over-approximation): between any two environment operations of this function other processes may change '
                              'files, bytecode and stamps in any way that keeps the rely condition true, never delete a module file, and never touch a temporary '
                              'file created by this process; sys.modules belongs to this process')
    old = {k: env_get(st, k) for k in ('fs_exists', 'fs_content', 'fs_stamp', 'pyc_exists', 'pyc_code', 'pyc_stamp', 'dir_exists')}
    for k in old:
        env_set(st, k, fresh('env_' + k, ENV_KEYS[k]))
    p = z3.String('p!rely')
    ne = env_get(st, 'fs_exists')
    st.assume(z3.ForAll([p], z3.Implies(z3.And(z3.Select(old['fs_exists'], p), z3.Not(is_tmp_path(p))), z3.Select(ne, p)),
                        patterns=[z3.Select(ne, p)]))
    nd = env_get(st, 'dir_exists')         # directories only appear (the cache folder is never removed)
    st.assume(z3.ForAll([p], z3.Implies(z3.Select(old['dir_exists'], p), z3.Select(nd, p)), patterns=[z3.Select(nd, p)]))
    for t in st.ghost.get('env.own_tmp', VTuple([])).items:
        for k in ('fs_exists', 'fs_content', 'fs_stamp'):
            st.assume(z3.Select(env_get(st, k), t.z) == z3.Select(old[k], t.z))
    envn = dict(self.fn_env)
    st.assume(self.spec_bool(st, c.rely, envn, old=self.fn_pre))


def _sfun(name, n):
    return z3.Function(name, *([T.S] * (n + 1)))


def m_bi_os_path_abspath(self, st, pos, kws, k):
    return k(st, VStr(_sfun('os_path_abspath', 1)(self.as_str(pos[0]))))


def m_bi_os_path_dirname(self, st, pos, kws, k):
    return k(st, VStr(_sfun('os_path_dirname', 1)(self.as_str(pos[0]))))


def m_bi_os_path_basename(self, st, pos, kws, k):
    return k(st, VStr(_sfun('os_path_basename', 1)(self.as_str(pos[0]))))


def m_bi_os_path_join(self, st, pos, kws, k):
    r = self.as_str(pos[0])
    for p in pos[1:]:
        r = _sfun('os_path_join', 2)(r, self.as_str(p))
    return k(st, VStr(r))


def m_bi_os_path_splitext(self, st, pos, kws, k):
    s = self.as_str(pos[0])
    return k(st, VTuple([VStr(_sfun('os_path_splitext0', 1)(s)), VStr(_sfun('os_path_splitext1', 1)(s))]))


def m_as_str(self, v):
    if isinstance(v, VStr):
        return v.z
    if isinstance(v, VDyn):
        return T.Val.sval(v.z)
    raise Untranslated('a str is expected, got %s' % v.kind)


def m_bi_inspect_getfile(self, st, pos, kws, k):
    c = pos[0]
    cz = c.z if hasattr(c, 'z') else None
    if cz is None:
        raise Untranslated('inspect.getfile of %s' % c.kind)
    builtin = z3.Function('defined_without_file', cz.sort(), T.B)(cz)
    f = z3.Function('inspect_getfile', cz.sort(), T.S)(cz)
    return self.with_raises(st, [(builtin, 'TypeError')], lambda st: k(st, VStr(f)))


def m_bi_os_path_exists(self, st, pos, kws, k):
    self.env_interfere(st)
    p = self.as_str(pos[0])
    ex = z3.If(is_cachepath(p), z3.Select(env_get(st, 'pyc_exists'), srcof(p)), z3.Select(env_get(st, 'fs_exists'), p))
    return k(st, VBool(ex))


def m_bi_os_remove(self, st, pos, kws, k):
    self.env_interfere(st)
    p = self.as_str(pos[0])
    ex = z3.If(is_cachepath(p), z3.Select(env_get(st, 'pyc_exists'), srcof(p)), z3.Select(env_get(st, 'fs_exists'), p))

    def cont(st):
        pe, fe = env_get(st, 'pyc_exists'), env_get(st, 'fs_exists')
        # (the names this code removes end in .pyc: such a file is not itself the source of a module with cached bytecode)
        self.used_assumptions.add('a file removed by os.remove that is not a bytecode-cache file (the relative "<module>.pyc" fallback name) is not the source of a module that has cached bytecode')
        st.assume(z3.Implies(z3.Not(is_cachepath(p)), z3.Not(z3.Select(pe, p))))
        env_set(st, 'pyc_exists', z3.If(is_cachepath(p), z3.Store(pe, srcof(p), False), pe))
        env_set(st, 'fs_exists', z3.If(is_cachepath(p), fe, z3.Store(fe, p, False)))
        self.env_crash_point(st, 'os.remove')
        return k(st, VNone())
    return self.with_raises(st, [(z3.Not(ex), 'FileNotFoundError')], cont)


def m_bi_os_makedirs(self, st, pos, kws, k):
    """os.makedirs(p, exist_ok=...): the directory exists afterwards; without exist_ok an existing directory is an error
    (another process may have created it since it was last looked at)"""
    self.env_interfere(st)
    p = self.as_str(pos[0])
    eo = kws.get('exist_ok', pos[1] if len(pos) > 1 else VBool(False))
    ok = self.truth(st, eo)
    de = env_get(st, 'dir_exists')

    def cont(st):
        env_set(st, 'dir_exists', z3.Store(de, p, True))
        return k(st, VNone())
    return self.with_raises(st, [(z3.And(z3.Not(ok), z3.Select(de, p)), 'FileExistsError')], cont)


def m_bi_os_path_isdir(self, st, pos, kws, k):
    self.env_interfere(st)
    p = self.as_str(pos[0])
    return k(st, VBool(z3.Select(env_get(st, 'dir_exists'), p)))


class VHAcc(V):
    kind = 'hacc'

    def __init__(self, z):
        self.z = z


class VEnvObj(V):
    """a local object of the environment (hash accumulator, open file, loader): its mutable state lives in
    st.ghost['obj:<oid>'] (copied with the state), the value itself is immutable"""
    kind = 'envobj'
    _next = [0]

    def __init__(self, cls):
        self.cls = cls
        VEnvObj._next[0] += 1
        self.oid = VEnvObj._next[0]

    def get(self, st):
        return st.ghost['obj:%d' % self.oid]

    def set(self, st, v):
        st.ghost['obj:%d' % self.oid] = v


def file_state(st, obj):
    """(path term, everything written so far, still open?)"""
    p, w, o = obj.get(st).items[:3]
    return p.z, w.z, o


def file_set(st, obj, p, w, o):
    obj.set(st, VTuple([VStr(p), VContent(w), o, obj.get(st).items[3]]))      # [3]: the .name attribute (path at creation)


def new_file(st, path):
    o = VEnvObj('File')
    o.set(st, VTuple([VStr(path), VContent(cempty), VBool(z3.BoolVal(True)), VStr(path)]))
    st.ghost['env.open_files'] = VTuple(st.ghost.get('env.open_files', VTuple([])).items + [o])
    return o


def file_close(self, st, obj):
    """close / leaving the with block: everything written reaches the file the descriptor refers to (which is wherever
    the file has been renamed to in the meantime)"""
    p, w, o = file_state(st, obj)
    if z3.is_false(z3.simplify(o.z)):
        return
    env_set(st, 'fs_content', z3.Store(env_get(st, 'fs_content'), p, w))
    env_set(st, 'fs_stamp', z3.Store(env_get(st, 'fs_stamp'), p, fresh('stamp', T.I)))
    file_set(st, obj, p, w, VBool(z3.BoolVal(False)))
    self.env_crash_point(st, 'close')


def m_bi_hashlib_sha1(self, st, pos, kws, k):
    o = VEnvObj('Sha1')
    o.set(st, VHAcc(hempty))
    return k(st, o)


def m_bi_SourceFileLoader(self, st, pos, kws, k):
    o = VEnvObj('SourceFileLoader')
    o.set(st, VTuple([VStr(self.as_str(pos[0])), VStr(self.as_str(pos[1]))]))
    return k(st, o)


def m_bi_open(self, st, pos, kws, k):
    p = self.as_str(pos[0])
    mode = pos[1] if len(pos) > 1 else kws.get('mode')
    if mode is None or (isinstance(mode, VStr) and mode.py in ('r', 'rt')):
        # reading: the text of the file as it is now (an opaque function of its content)
        self.env_interfere(st)
        p = self.as_str(pos[0])
        o = VEnvObj('ReadFile')
        o.set(st, VStr(p))
        return self.with_raises(st, [(z3.Not(z3.Select(env_get(st, 'fs_exists'), p)), 'FileNotFoundError')], lambda st: k(st, o))
    if not (isinstance(mode, VStr) and mode.py == 'w'):
        raise Untranslated('open() with a mode other than "w" / "r"')
    self.env_interfere(st)
    self.used_assumptions.add('file-system operations on the cache directory succeed (writable directory, no I/O errors)')
    self.used_assumptions.add('the path of a generated module (.../__pkts__/<module>_<class>.py) is not a bytecode-cache path')
    st.assume(z3.Not(is_cachepath(p)))
    env_set(st, 'fs_exists', z3.Store(env_get(st, 'fs_exists'), p, True))
    env_set(st, 'fs_content', z3.Store(env_get(st, 'fs_content'), p, cempty))
    # the new stamp (mtime in seconds, size) is unconstrained: it may or may not equal the old one
    env_set(st, 'fs_stamp', z3.Store(env_get(st, 'fs_stamp'), p, fresh('stamp', T.I)))
    o = new_file(st, p)
    self.env_crash_point(st, 'open(w)')
    return k(st, o)


def m_bi_tempfile_NamedTemporaryFile(self, st, pos, kws, k):
    """tempfile.NamedTemporaryFile('w', dir=..., delete=False): a NEW empty file under a name that no module,
    bytecode file or other process uses"""
    mode = pos[0] if pos else kws.get('mode')
    if not (isinstance(mode, VStr) and mode.py == 'w'):
        raise Untranslated('NamedTemporaryFile with a mode other than "w"')
    dl = kws.get('delete')
    if not (isinstance(dl, VBool) and z3.is_false(z3.simplify(dl.z))):
        raise Untranslated('NamedTemporaryFile without delete=False')
    self.env_interfere(st)
    self.used_assumptions.add('tempfile.NamedTemporaryFile creates a new file whose name is not the name of a generated module, of a bytecode file or of a '
                              'file used by another process')
    t = fresh('tmpname', T.S)
    st.assume(z3.And(is_tmp_path(t), z3.Not(is_cachepath(t)), z3.Not(z3.Select(env_get(st, 'fs_exists'), t))))
    env_set(st, 'fs_exists', z3.Store(env_get(st, 'fs_exists'), t, True))
    env_set(st, 'fs_content', z3.Store(env_get(st, 'fs_content'), t, cempty))
    env_set(st, 'fs_stamp', z3.Store(env_get(st, 'fs_stamp'), t, fresh('stamp', T.I)))
    st.ghost['env.own_tmp'] = VTuple(st.ghost.get('env.own_tmp', VTuple([])).items + [VStr(t)])
    o = new_file(st, t)
    self.env_crash_point(st, 'NamedTemporaryFile')
    return k(st, o)


def m_bi_os_replace(self, st, pos, kws, k):
    """os.replace(src, dst): atomic rename - dst has the whole content (and the stamp) of src, src is gone"""
    self.env_interfere(st)
    a, b = self.as_str(pos[0]), self.as_str(pos[1])
    fe, fc, fs = env_get(st, 'fs_exists'), env_get(st, 'fs_content'), env_get(st, 'fs_stamp')

    def cont(st):
        env_set(st, 'fs_content', z3.Store(fc, b, z3.Select(fc, a)))
        env_set(st, 'fs_stamp', z3.Store(fs, b, z3.Select(fs, a)))
        env_set(st, 'fs_exists', z3.Store(z3.Store(fe, b, True), a, a == b))
        # a file of this process that is still open keeps its descriptor: what it has buffered reaches the NEW name at close
        for o in st.ghost.get('env.open_files', VTuple([])).items:
            fp, fw, fo = file_state(st, o)
            if z3.is_false(z3.simplify(fo.z)):
                continue
            if fp.eq(a):
                file_set(st, o, b, fw, fo)
            elif self.feasible(st, fp == a):
                raise Untranslated('os.replace of a path that may be an open file of this process')
        self.env_crash_point(st, 'os.replace')
        return k(st, VNone())
    return self.with_raises(st, [(z3.Not(z3.Select(fe, a)), 'FileNotFoundError')], cont)


def m_env_method(self, st, obj, attr, pos, kws, k):
    """methods of the environment objects (Sha1, File, SourceFileLoader)"""
    if obj.cls == 'Sha1':
        acc = obj.get(st).z
        if attr == 'update':
            b, bad = self.as_bytes(pos[0])

            def cont(st):
                obj.set(st, VHAcc(hupd(acc, b)))
                return k(st, VNone())
            return self.with_raises(st, [(bad, 'TypeError')], cont)
        if attr == 'hexdigest':
            return k(st, VStr(sha1hex(acc)))
    if obj.cls == 'File':
        p, w, o = file_state(st, obj)
        if attr == 'write':
            s = self.as_str(pos[0])
            # writes are BUFFERED: what is on disk while the file is open is some part of what has been written (here:
            # anything at all); everything written is on disk only after flush() / close() / leaving the with block
            file_set(st, obj, p, capp(w, s), o)
            c = env_get(st, 'fs_content')
            env_set(st, 'fs_content', z3.Store(c, p, fresh('partial', Content)))
            self.env_crash_point(st, 'write')
            return self.with_raises(st, [(z3.Not(o.z), 'ValueError')], lambda st: k(st, VInt(z3.Length(s))))
        if attr == 'name':
            return k(st, obj.get(st).items[3])
        if attr == 'flush':
            env_set(st, 'fs_content', z3.Store(env_get(st, 'fs_content'), p, w))
            self.env_crash_point(st, 'flush')
            return k(st, VNone())
        if attr == 'close':
            file_close(self, st, obj)
            return k(st, VNone())
    if obj.cls == 'ReadFile':
        p = obj.get(st).z
        if attr == 'read':
            return k(st, VStr(z3.Function('content_text', Content, T.S)(z3.Select(env_get(st, 'fs_content'), p))))
        if attr == 'close':
            return k(st, VNone())
    if obj.cls == 'SourceFileLoader' and attr == 'load_module':
        nm, pth = obj.get(st).items
        return self.env_load_module(st, nm.z, pth.z, k)
    raise Untranslated('method %s.%s' % (obj.cls, attr))


def m_env_load_module(self, st, name, path, k):
    self.env_interfere(st)
    fe, fc, fs = env_get(st, 'fs_exists'), env_get(st, 'fs_content'), env_get(st, 'fs_stamp')
    pe, pc, ps = env_get(st, 'pyc_exists'), env_get(st, 'pyc_code'), env_get(st, 'pyc_stamp')
    ml, mr = env_get(st, 'mod_loaded'), env_get(st, 'mod_ref')
    dwb = st.ghost['env.dont_write_bytecode'].z
    st.assume(z3.And(z3.Not(is_cachepath(path)), z3.Not(is_tmp_path(path))))
    use_pyc = z3.And(z3.Select(pe, path), z3.Select(ps, path) == z3.Select(fs, path))
    eff = z3.If(use_pyc, z3.Select(pc, path), z3.Select(fc, path))

    def exists(st):
        # bytecode may be (re)written from the source whenever the source was compiled
        wrote = fresh('wrote_pyc', T.B)
        do_write = z3.And(wrote, z3.Not(dwb), z3.Not(use_pyc))
        env_set(st, 'pyc_exists', z3.If(do_write, z3.Store(pe, path, True), pe))
        env_set(st, 'pyc_code', z3.If(do_write, z3.Store(pc, path, z3.Select(fc, path)), pc))
        env_set(st, 'pyc_stamp', z3.If(do_write, z3.Store(ps, path, z3.Select(fs, path)), ps))
        self.env_crash_point(st, 'load_module(bytecode written)')
        out = exec_outcome(eff)
        # --- the text raises: a failed first import leaves no module behind; a failed re-execution keeps the old one
        for code, cls in ((1, 'ImportError'), (2, 'OtherException*')):
            s2 = st.fork('load:%s' % cls)
            s2.assume(out == code)
            if self.feasible(s2, z3.BoolVal(True)):
                self.do_raise(s2, VExc(cls, eid=fresh('eid', T.I)))
        st.assume(z3.And(out != 1, out != 2))
        # --- it executes: into the existing module object of that name, or into a new one
        had = z3.Select(ml, name)
        newr = self.alloc(st, 'Module')
        m = z3.If(had, z3.Select(mr, name), newr)
        st.assume(z3.Implies(had, z3.And(z3.Select(mr, name) >= 0, z3.Select(mr, name) < newr,
                                         self.inst_of(z3.Select(mr, name), 'Module'))))
        nm = z3.String('n!ns')
        old_has = z3.Select(st.heap['has'], m)
        old_val = z3.Select(st.heap['slots'], m)
        special = z3.Or(nm == z3.StringVal('__cached__'), nm == z3.StringVal('__name__'), nm == z3.StringVal('__file__'))
        sval = z3.If(nm == z3.StringVal('__cached__'), T.Val.VS(cachepath(path)),
                     z3.If(nm == z3.StringVal('__name__'), T.Val.VS(name), T.Val.VS(path)))
        new_has = z3.Lambda([nm], z3.Or(special, defines(eff, nm), z3.And(had, z3.Select(old_has, nm))))
        new_val = z3.Lambda([nm], z3.If(special, sval, z3.If(defines(eff, nm), defval(eff, nm), z3.Select(old_val, nm))))
        st.heap['has'] = z3.Store(st.heap['has'], m, new_has)
        st.heap['slots'] = z3.Store(st.heap['slots'], m, new_val)
        env_set(st, 'mod_loaded', z3.Store(ml, name, True))
        env_set(st, 'mod_ref', z3.Store(mr, name, m))
        st.ghost['g_last_loaded'] = VContent(eff)
        return k(st, VRef(m, 'Module'))
    return self.with_raises(st, [(z3.Not(z3.Select(fe, path)), 'FileNotFoundError')], exists)


def m_env_file_close(self, st, obj):
    return file_close(self, st, obj)


def install(Engine):
    for name, v in list(globals().items()):
        if name.startswith('m_'):
            setattr(Engine, name[2:], v)
