"""Theory layer of pyvc: z3 sorts, uninterpreted symbols and axioms.

Everything here is the *assumed* semantics of Python builtins that the VC
generator relies on (DESIGN.md 2.4-2.6).  Each axiom set is cross-checked
against CPython by pyvc/crosscheck.py (bounded).
"""
import z3

I = z3.IntSort()
B = z3.BoolSort()
S = z3.StringSort()
Bytes = z3.DeclareSort('Bytes')

# ---------------------------------------------------------------- Val
Val = z3.Datatype('Val')
Val.declare('VI', ('ival', I))        # int
Val.declare('VB', ('bval', B))        # bool
Val.declare('VN')                     # None
Val.declare('VBy', ('byval', Bytes))  # bytes
Val.declare('VR', ('rval', I))        # object reference (packet, field, ...)
Val.declare('VL', ('lval', I))        # list reference
Val.declare('VF', ('fval', I))        # callable (function id)
Val.declare('VS', ('sval', S))        # str
Val.declare('VO', ('oval', I))        # any other object (opaque, non-int, non-bytes)
Val = Val.create()

# kwargs mapping ``**k`` (value semantics: python copies it on each call)
Kw = z3.Datatype('Kw')
Kw.declare('mkkw', ('has_ipp', B), ('ipp', I), ('has_root', B), ('root', I),
           ('packing', B), ('rest', I), ('has_raw', B), ('kraw', Bytes), ('has_off', B), ('koff', I))
Kw = Kw.create()

# struct.Struct of a single integer code
SF = z3.Datatype('SF')
SF.declare('mksf', ('sf_big', B), ('sf_size', I), ('sf_signed', B))
SF = SF.create()

Conf = z3.Datatype('Conf')
Conf.declare('mkconf', ('chas', z3.ArraySort(S, B)), ('cval', z3.ArraySort(S, Val)))
Conf = Conf.create()

AI = z3.ArraySort(I, I)
AB = z3.ArraySort(I, B)
AV = z3.ArraySort(I, Val)
ABy = z3.ArraySort(I, Bytes)
ASV = z3.ArraySort(S, Val)
ASB = z3.ArraySort(S, B)
bisect_r = z3.Function('bisect_r', AV, I, I, I)      # bisect_right(list contents, len, x)

# ---------------------------------------------------------------- bytes
blen = z3.Function('blen', Bytes, I)
bat = z3.Function('bat', Bytes, I, I)
bslice = z3.Function('bslice', Bytes, I, I, Bytes)     # normalised bounds 0<=lo<=hi<=len
bconcat = z3.Function('bconcat', Bytes, Bytes, Bytes)
bempty = z3.Const('bempty', Bytes)
brepeat = z3.Function('brepeat', Bytes, I, Bytes)       # s * n
bdiff = z3.Function('bdiff', Bytes, Bytes, I)           # skolem of extensionality
bfind = z3.Function('bfind', Bytes, Bytes, I)           # s.find(m)
bmatch = z3.Function('bmatch', Bytes, I, Bytes, B)      # m occurs in s at index i
bjoin = z3.Function('bjoin', AV, I, Bytes)              # b''.join(list[:n])
bval = z3.Function('bval', Bytes, B, B, I)              # int.from_bytes(b, big?, signed?)
bofint = z3.Function('bofint', I, I, B, B, Bytes)       # v.to_bytes(n, big?, signed?)
bsingle = z3.Function('bsingle', I, Bytes)              # bytes([x])
pow2 = z3.Function('pow2', I, I)


# regex (opaque patterns)
RX = I      # regular-expression objects are identified by their (opaque) object id
rx_pattern = z3.Function('rx_pattern', RX, Bytes)
rx_found = z3.Function('rx_found', RX, Bytes, B)        # search(buf,0) is not None
rx_start = z3.Function('rx_start', RX, Bytes, I)
rx_end = z3.Function('rx_end', RX, Bytes, I)
rx_matches = z3.Function('rx_matches', RX, Bytes, I, I, B)   # pattern matches buf[a:b] (in context)
DOLLAR = z3.Const('DOLLAR', Bytes)                       # b"$"


def _fa(vs, body, pats):
    return z3.ForAll(vs, body, patterns=pats)


def bytes_axioms(derived=True):
    s, t, m = z3.Consts('s t m', Bytes)
    i, j, k, n = z3.Ints('i j k n')
    ax = []
    ax.append(_fa([s], blen(s) >= 0, [blen(s)]))
    ax.append(blen(bempty) == 0)
    ax.append(_fa([s], z3.Implies(blen(s) == 0, s == bempty), [blen(s)]))
    ax.append(_fa([s, i], z3.Implies(z3.And(0 <= i, i < blen(s)),
                                     z3.And(0 <= bat(s, i), bat(s, i) <= 255)), [bat(s, i)]))
    # slice (normalised)
    ax.append(_fa([s, i, j], z3.Implies(z3.And(0 <= i, i <= j, j <= blen(s)),
                                        blen(bslice(s, i, j)) == j - i), [bslice(s, i, j)]))
    ax.append(_fa([s, i, j, k], z3.Implies(z3.And(0 <= i, i <= j, j <= blen(s), 0 <= k, k < j - i),
                                           bat(bslice(s, i, j), k) == bat(s, i + k)),
                  [bat(bslice(s, i, j), k)]))
    ax.append(_fa([s], bslice(s, 0, blen(s)) == s, [bslice(s, 0, blen(s))]))
    if derived:
        # slice of a slice (derived: proved from the other axioms + extensionality by lemma bytes.slice_of_slice)
        a, b, c, d = z3.Ints('a b c d')
        ax.append(_fa([s, a, b, c, d], z3.Implies(z3.And(0 <= a, a <= b, b <= blen(s), 0 <= c, c <= d, d <= b - a),
                                                  bslice(bslice(s, a, b), c, d) == bslice(s, a + c, a + d)),
                      [bslice(bslice(s, a, b), c, d)]))
    # concat
    ax.append(_fa([s, t], blen(bconcat(s, t)) == blen(s) + blen(t), [bconcat(s, t)]))
    ax.append(_fa([s, t, k], z3.Implies(z3.And(0 <= k, k < blen(s)),
                                        bat(bconcat(s, t), k) == bat(s, k)), [bat(bconcat(s, t), k)]))
    ax.append(_fa([s, t, k], z3.Implies(z3.And(blen(s) <= k, k < blen(s) + blen(t)),
                                        bat(bconcat(s, t), k) == bat(t, k - blen(s))),
                  [bat(bconcat(s, t), k)]))
    ax.append(_fa([s], bconcat(s, bempty) == s, [bconcat(s, bempty)]))
    ax.append(_fa([s], bconcat(bempty, s) == s, [bconcat(bempty, s)]))
    # repeat
    ax.append(_fa([s, n], blen(brepeat(s, n)) == z3.If(n > 0, n, 0) * blen(s), [brepeat(s, n)]))
    ax.append(_fa([s, n, k], z3.Implies(z3.And(blen(s) == 1, 0 <= k, k < n),
                                        bat(brepeat(s, n), k) == bat(s, 0)), [bat(brepeat(s, n), k)]))
    # single
    ax.append(_fa([i], z3.Implies(z3.And(0 <= i, i <= 255),
                                  z3.And(blen(bsingle(i)) == 1, bat(bsingle(i), 0) == i)), [bsingle(i)]))
    return ax


def ext_instance(a, b):
    """Instance of (skolemised) extensionality for the pair a, b."""
    d = bdiff(a, b)
    return z3.Or(a == b, blen(a) != blen(b),
                 z3.And(0 <= d, d < blen(a), bat(a, d) != bat(b, d)))


def find_axioms():
    """bytes.find(m): least index of an occurrence, or -1 (assumed; cross-checked)."""
    s, m = z3.Consts('s m', Bytes)
    i, j, k, a, b = z3.Ints('i j k a b')
    ax = []
    # definition of match by positions
    ax.append(_fa([s, i, m], bmatch(s, i, m) ==
                  z3.And(0 <= i, i + blen(m) <= blen(s),
                         z3.ForAll([k], z3.Implies(z3.And(0 <= k, k < blen(m)),
                                                   bat(s, i + k) == bat(m, k)),
                                   patterns=[bat(m, k)])),
                  [bmatch(s, i, m)]))
    ax.append(_fa([s, m], z3.Or(bfind(s, m) == -1,
                                z3.And(0 <= bfind(s, m), bmatch(s, bfind(s, m), m))), [bfind(s, m)]))
    ax.append(_fa([s, m, i], z3.Implies(bmatch(s, i, m),
                                        z3.And(0 <= bfind(s, m), bfind(s, m) <= i)),
                  [z3.MultiPattern(bmatch(s, i, m), bfind(s, m))]))
    return ax


def match_shift_lemma(s, a, b, c, m):
    """match(s[a:b], c, m) <=> match(s, a+c, m) /\\ a+c+|m| <= b  (for 0<=a<=b<=|s|, c>=0).
    Proved from the axioms in lemmas (not assumed)."""
    return z3.Implies(z3.And(0 <= a, a <= b, b <= blen(s), 0 <= c),
                      bmatch(bslice(s, a, b), c, m) ==
                      z3.And(bmatch(s, a + c, m), a + c + blen(m) <= b))


def join_axioms():
    A = z3.Const('A', AV)
    n, i = z3.Ints('n i')
    x = z3.Const('x', Val)
    ax = []
    ax.append(_fa([A], bjoin(A, 0) == bempty, [bjoin(A, 0)]))
    ax.append(_fa([A, n], z3.Implies(n >= 0, bjoin(A, n + 1) ==
                                     bconcat(bjoin(A, n), Val.byval(A[n]))), [bjoin(A, n + 1)]))
    ax.append(_fa([A, n, i, x], z3.Implies(i >= n, bjoin(z3.Store(A, i, x), n) == bjoin(A, n)),
                  [bjoin(z3.Store(A, i, x), n)]))
    return ax


def int_bytes_axioms():
    """int.from_bytes / int.to_bytes (assumed; cross-checked against CPython)."""
    s, t = z3.Consts('s t', Bytes)
    big, sg = z3.Bools('big sg')
    v, n = z3.Ints('v n')
    ax = []
    lo = lambda n, sg: z3.If(sg, -pow2(8 * n - 1), 0)
    hi = lambda n, sg: z3.If(sg, pow2(8 * n - 1) - 1, pow2(8 * n) - 1)
    # range of from_bytes
    ax.append(_fa([s, big, sg], z3.Implies(blen(s) >= 1,
                                           z3.And(lo(blen(s), sg) <= bval(s, big, sg),
                                                  bval(s, big, sg) <= hi(blen(s), sg))),
                  [bval(s, big, sg)]))
    ax.append(_fa([s, big, sg], z3.Implies(blen(s) == 0, bval(s, big, sg) == 0), [bval(s, big, sg)]))
    # to_bytes is the inverse on the representable range
    ax.append(_fa([v, n, big, sg], z3.Implies(z3.And(n >= 1, lo(n, sg) <= v, v <= hi(n, sg)),
                                              z3.And(blen(bofint(v, n, big, sg)) == n,
                                                     bval(bofint(v, n, big, sg), big, sg) == v)),
                  [bofint(v, n, big, sg)]))
    ax.append(_fa([s, big, sg], z3.Implies(blen(s) >= 1, bofint(bval(s, big, sg), blen(s), big, sg) == s),
                  [bval(s, big, sg)]))
    # single byte, unsigned
    ax.append(_fa([s, big], z3.Implies(blen(s) == 1, bval(s, big, False) == bat(s, 0)),
                  [bval(s, big, False)]))
    return ax


def pow2_axioms():
    """2**a for a >= 0.  Only linear facts are given as axioms; the product law
    pow2(a+b) = pow2(a)*pow2(b) is supplied as ground hints where a proof needs it."""
    a = z3.Int('a')
    ax = [pow2(0) == 1, pow2(1) == 2, pow2(8) == 256]
    ax.append(_fa([a], z3.Implies(a >= 0, pow2(a) >= 1), [pow2(a)]))
    return ax


def regex_axioms():
    r = z3.Const('r', RX)
    s = z3.Const('s', Bytes)
    ax = []
    ax.append(_fa([r, s], z3.Implies(rx_found(r, s),
                                     z3.And(0 <= rx_start(r, s), rx_start(r, s) <= rx_end(r, s),
                                            rx_end(r, s) <= blen(s))), [rx_found(r, s)]))
    ax.append(blen(DOLLAR) == 1)
    ax.append(bat(DOLLAR, 0) == 36)
    return ax


AXIOM_SETS = {
    'divmod': lambda: divmod_axiom(),
    'bytes': bytes_axioms,
    'find': find_axioms,
    'join': join_axioms,
    'intbytes': int_bytes_axioms,
    'pow2': pow2_axioms,
    'regex': regex_axioms,
}


# ---------------------------------------------------------------- python int helpers
qf = z3.Function('pyfloordiv', I, I, I)
rf = z3.Function('pymod', I, I, I)
MODREG = []     # (x, d) pairs with symbolic divisor used since the last reset


def _const_div(d):
    d = z3.simplify(d)
    return d.as_long() if z3.is_int_value(d) else None


def py_mod(x, d):
    """Python x % d for d != 0 (floor semantics; result has the sign of d)."""
    c = _const_div(d)
    if c is not None and c != 0:
        m = x % d       # z3: euclidean, 0 <= m < |d|
        return m if c > 0 else z3.If(m == 0, 0, m + d)
    MODREG.append((x, d))
    return rf(x, d)


def py_floordiv(x, d):
    c = _const_div(d)
    if c is not None and c != 0:
        q = x / d       # z3: x = d*q + r, 0 <= r < |d|
        return q if c > 0 else z3.If(x % d == 0, q, q - 1)
    MODREG.append((x, d))
    return qf(x, d)


mulf = z3.Function('mulf', I, I, I)     # mulf(q, d) stands for the product q*d (kept linear for the solver)


def divmod_def(x, d):
    """Defining property of python's // and % (exact for all ints, d != 0):
    x = (x//d)*d + x%d with the remainder between 0 and d."""
    q, r = qf(x, d), rf(x, d)
    return z3.And(z3.Implies(d != 0, x == mulf(q, d) + r),
                  z3.Implies(d > 0, z3.And(0 <= r, r < d)),
                  z3.Implies(d < 0, z3.And(d < r, r <= 0)))


def quotient_hint(a, b, d):
    """Valid facts about products (mulf(q,d) = q*d): distributivity for the pair a, b and
    the size of a non-zero multiple.  b may be None (single term)."""
    dd = a - b if b is not None else a
    h = [z3.Implies(z3.And(d > 0, dd >= 1), mulf(dd, d) >= d),
         z3.Implies(z3.And(d > 0, dd <= -1), mulf(dd, d) <= -d),
         z3.Implies(z3.And(d < 0, dd >= 1), mulf(dd, d) <= d),
         z3.Implies(z3.And(d < 0, dd <= -1), mulf(dd, d) >= -d),
         z3.Implies(dd == 0, mulf(dd, d) == 0),
         z3.Implies(dd == 1, mulf(dd, d) == d),
         z3.Implies(dd == -1, mulf(dd, d) == -d)]
    if b is not None:
        h.append(mulf(a, d) - mulf(b, d) == mulf(dd, d))
    return z3.And(h)


def divmod_axiom():
    x, d = z3.Ints('x d')
    return [z3.ForAll([x, d], divmod_def(x, d), patterns=[rf(x, d)]),
            z3.ForAll([x, d], divmod_def(x, d), patterns=[qf(x, d)])]


AXIOM_SETS_LATE = {'divmod': divmod_axiom}


def as_int(v):
    return z3.If(Val.is_VI(v), Val.ival(v), z3.If(Val.bval(v), 1, 0))


def is_intlike(v):
    return z3.Or(Val.is_VI(v), Val.is_VB(v))
