"""Specification functions available in contract expressions."""
import z3
from . import theory as T
from .values import *


def sf_slot(ev, pkt, name):
    return VDyn(ev.eng.slot_get(ev.st, pkt.z, name.z))


def sf_hasslot(ev, pkt, name):
    return VBool(ev.eng.slot_has(ev.st, pkt.z, name.z))


def sf_isint(ev, v):
    return VBool(ev.eng.isinst(ev.st, v, 'int'))


def sf_isbytes(ev, v):
    return VBool(ev.eng.isinst(ev.st, v, 'bytes'))


def sf_isstr(ev, v):
    return VBool(ev.eng.isinst(ev.st, v, 'str'))


def sf_isnone(ev, v):
    if isinstance(v, VNone):
        return VBool(True)
    if isinstance(v, VDyn):
        return VBool(T.Val.is_VN(v.z))
    return VBool(False)


def sf_isbool(ev, v):
    return VBool(ev.eng.isinst(ev.st, v, 'bool'))


def sf_intval(ev, v):
    return VInt(ev.eng.as_int(v)[0])


def sf_bytesval(ev, v):
    return VBytes(ev.eng.as_bytes(v)[0])


def sf_isinst(ev, v, cls):
    return VBool(ev.eng.isinst(ev.st, v, cls.py))


def sf_asref(ev, v, cls):
    if isinstance(v, VRef):
        return VRef(v.z, cls.py)
    return VRef(T.Val.rval(v.z), cls.py)


def sf_iscallable(ev, v):
    if isinstance(v, VDyn):
        return VBool(ev.eng.is_callable(v.z))
    return VBool(isinstance(v, VFunc))


def sf_getattr(ev, obj, name):
    return VDyn(ev.eng.slot_get(ev.st, obj.z, name.z))


def _cb(ev, fn, kwargs):
    from .execute import callable_id
    names = sorted(k for k in kwargs if k != 'k')
    args, shape = [], []
    for nme in names:
        v = kwargs[nme]
        args.append(v.z)
        shape.append(nme + ('R' if isinstance(v, VRef) else v.kind[0]))
    if 'k' in kwargs:
        args.append(kwargs['k'].z)
        shape.append('kw')
    fid = callable_id(fn.z) if isinstance(fn, VDyn) else fn.payload[1]
    return ev.eng.cb_apply(ev.st, fid, '_'.join(shape), args)


def _inline_lambda(ev, fn, kwargs):
    """apply a lambda closure created by the code under verification to the given keyword
    arguments by evaluating its body (pure expression) in the current specification state"""
    import ast
    from .specev import SpecEval
    node, closure = fn.payload
    env = dict(closure)
    a = node.args
    kw = dict(kwargs)
    kk = kw.pop('k', None)
    for arg in a.args:
        if arg.arg in kw:
            env[arg.arg] = kw.pop(arg.arg)
        else:
            raise Untranslated('lambda parameter %s not supplied in spec application' % arg.arg)
    if kw and not a.kwarg:
        raise Untranslated('lambda does not accept %s' % list(kw))
    if a.kwarg:
        env[a.kwarg.arg] = kk if kk is not None else VKw(ev.eng.empty_kw())
    return SpecEval(ev.eng, ev.st, {k: v for k, v in env.items() if v is not None}, ev.old).ev(node.body)


def sf_cb(ev, fn, **kwargs):
    if isinstance(fn, VFunc) and fn.tag == 'lambda':
        return _inline_lambda(ev, fn, kwargs)
    return VDyn(_cb(ev, fn, kwargs)[0])


def sf_cb_raises(ev, fn, **kwargs):
    if isinstance(fn, VFunc) and fn.tag == 'lambda':
        return VBool(False)
    return VBool(_cb(ev, fn, kwargs)[1])


def sf_pow2(ev, n):
    return VInt(T.pow2(n.z))


def sf_val(ev, b, big, signed):
    return VInt(T.bval(b.z, ev.eng.truth(ev.st, big), ev.eng.truth(ev.st, signed)))


def sf_pymod(ev, a, b):
    return VInt(T.py_mod(ev.eng.as_int(a)[0], ev.eng.as_int(b)[0]))


def sf_find(ev, s, m):
    if 'find' not in ev.eng.axiom_sets:
        ev.eng.axiom_sets.append('find')
    return VInt(T.bfind(s.z, m.z))


def sf_match(ev, s, i, m):
    if 'find' not in ev.eng.axiom_sets:
        ev.eng.axiom_sets.append('find')
    return VBool(T.bmatch(s.z, i.z, m.z))


def sf_fresh_since(ev, r):
    """r was allocated after the pre-state"""
    if isinstance(r, VDyn):
        z = z3.If(T.Val.is_VL(r.z), T.Val.lval(r.z), z3.If(T.Val.is_VR(r.z), T.Val.rval(r.z), T.Val.oval(r.z)))
        return VBool(z >= ev.old.heap['next'])
    return VBool(r.z >= ev.old.heap['next'])


def sf_allocated(ev, r):
    z = r.z if not isinstance(r, VDyn) else T.Val.rval(r.z)
    return VBool(z3.And(z >= 0, z < ev.st.heap['next']))


def sf_sys_byteorder(ev):
    return VStr(z3.String('sys_byteorder'))


def sf_nokw(ev, c):
    """a **kargs dictionary without any key"""
    return VBool(T.Conf.chas(c.z) == z3.K(T.S, z3.BoolVal(False)))


def sf_conf_get(ev, c, key, default):
    has = z3.Select(T.Conf.chas(c.z), key.z)
    return VDyn(z3.If(has, z3.Select(T.Conf.cval(c.z), key.z), to_val(default)))


def sf_intbytes(ev, v, n, big, signed):
    if 'intbytes' not in ev.eng.axiom_sets:
        ev.eng.axiom_sets.append('intbytes')
    return VBytes(T.bofint(ev.eng.as_int(v)[0], ev.eng.as_int(n)[0], ev.eng.truth(ev.st, big), ev.eng.truth(ev.st, signed)))


def sf_int_lo(ev, n, signed):
    n = ev.eng.as_int(n)[0]
    return VInt(z3.If(ev.eng.truth(ev.st, signed), -T.pow2(8 * n - 1), 0))


def sf_int_hi(ev, n, signed):
    n = ev.eng.as_int(n)[0]
    return VInt(z3.If(ev.eng.truth(ev.st, signed), T.pow2(8 * n - 1) - 1, T.pow2(8 * n) - 1))


def sf_unchanged(ev, obj):
    """every attribute of obj (and the contents of its list/dict attributes) is as in the pre-state"""
    eng, st, old = ev.eng, ev.st, ev.old
    cs = []
    for cc in eng.mro(obj.cls):
        for a, kd in eng.classes.get(cc, {}).get('attrs', {}).items():
            if kd.startswith('dict:'):
                for suf in ('#has', '#val'):
                    key = '%s.%s%s' % (cc, a, suf)
                    cs.append(z3.Select(st.heap[key], obj.z) == z3.Select(old.heap[key], obj.z))
            else:
                key = '%s.%s' % (cc, a)
                cs.append(z3.Select(st.heap[key], obj.z) == z3.Select(old.heap[key], obj.z))
                if kd == 'list':
                    l = z3.Select(old.heap[key], obj.z)
                    cs.append(z3.Select(st.heap['llen'], l) == z3.Select(old.heap['llen'], l))
                    cs.append(z3.Select(st.heap['lat'], l) == z3.Select(old.heap['lat'], l))
    return VBool(z3.And(cs))


def _dhas(ev, d):
    return z3.Select(ev.st.heap[d.key + '#has'], d.owner)


def sf_dsize(ev, d):
    has = _dhas(ev, d)
    return VInt(z3.Function('dsize', has.sort(), T.I)(has))


def sf_skey(ev, d, i):
    has = _dhas(ev, d)
    return VInt(z3.Function('dsorted_key', has.sort(), T.I, T.I)(has, i.z))


def sf_joined(ev, l):
    if 'join' not in ev.eng.axiom_sets:
        ev.eng.axiom_sets.append('join')
    return VBytes(T.bjoin(z3.Select(ev.st.heap['lat'], l.z), z3.Select(ev.st.heap['llen'], l.z)))


def sf_bisect_right(ev, l, x):
    arr = z3.Select(ev.st.heap['lat'], l.z)
    n = z3.Select(ev.st.heap['llen'], l.z)
    for f in ev.eng.bisect_facts(arr, n, x.z):
        if not any(f.eq(h) for h in ev.eng.extra_hyps):
            ev.eng.extra_hyps.append(f)
    return VInt(T.bisect_r(arr, n, x.z))


def sf_match_shift(ev, s, a, b, c, m):
    """instance of the slice-shift lemma for `match` (proved from the axioms wherever it is used)"""
    if 'find' not in ev.eng.axiom_sets:
        ev.eng.axiom_sets.append('find')
    return VBool(T.match_shift_lemma(s.z, ev.eng.as_int(a)[0], ev.eng.as_int(b)[0], ev.eng.as_int(c)[0], m.z))


def _rx(ev, v):
    return T.Val.oval(v.z) if isinstance(v, VDyn) else v.z


def sf_isregex(ev, v):
    return VBool(ev.eng.is_regex(v.z)) if isinstance(v, VDyn) else VBool(isinstance(v, VRx))


def sf_rx_pattern(ev, v):
    return VBytes(T.rx_pattern(_rx(ev, v)))


def sf_rx_found(ev, v, buf):
    return VBool(T.rx_found(_rx(ev, v), buf.z))


def sf_rx_start(ev, v, buf):
    return VInt(T.rx_start(_rx(ev, v), buf.z))


def sf_rx_end(ev, v, buf):
    return VInt(T.rx_end(_rx(ev, v), buf.z))


def sf_class_of(ev, obj):
    return VClassSym(ev.eng.class_of(obj.z), obj.cls)


def sf_class_name(ev, c):
    return VStr(z3.Function('class_name', T.I, T.S)(c.z))


def sf_ft_len(ev, c):
    return VInt(z3.Function('ft_len', T.I, T.I)(c.z))


def sf_ft_name(ev, c, i):
    return VStr(z3.Function('ft_name', T.I, T.I, T.S)(c.z, ev.eng.as_int(i)[0]))


def sf_ft_field(ev, c, i):
    return VRef(z3.Function('ft_field', T.I, T.I, T.I)(c.z, ev.eng.as_int(i)[0]), 'Field')


def sf_istuple(ev, v, n):
    from .values import tuple_parts
    nn = z3.simplify(n.z).as_long()
    return VBool(tuple_parts(to_val(v), nn)[0])


def sf_tupitem(ev, v, n, i):
    from .values import tuple_parts
    nn = z3.simplify(n.z).as_long()
    ii = z3.simplify(i.z).as_long()
    return VDyn(tuple_parts(to_val(v), nn)[1][ii])


def sf_islist(ev, v):
    return VBool(ev.eng.isinst(ev.st, v, 'list'))


def sf_aslist(ev, v):
    return VList(T.Val.lval(v.z)) if isinstance(v, VDyn) else v


def sf_isinst_cls(ev, v, c):
    f = z3.Function('isinst_cls', T.I, T.I, T.B)
    if isinstance(v, VRef):
        return VBool(f(v.z, c.z))
    return VBool(z3.And(T.Val.is_VR(v.z), f(T.Val.rval(v.z), c.z)))


def sf_owns(ev, f, n):
    """slot name n of the enclosing packet belongs to field f (its own slot or a scratch slot);
    slot sets of the entries of one field table are disjoint (WFClass, assumed)"""
    return VBool(z3.Function('owns', T.I, T.S, T.B)(f.z, n.z))


def sf_same(ev, a, b):
    """identity / structural identity of two values (z3 equality of their Val terms)"""
    for x in (a, b):
        if isinstance(x, VFunc) and x.tag == 'lambda':
            return VBool(a is b)     # a closure created by the code is a fresh object
    return VBool(to_val(a) == to_val(b))


def sf_strfmt(ev, fmt, arg):
    return VStr(z3.Function('strfmt', T.S, T.Val, T.S)(fmt.z, to_val(arg)))


def sf_unchanged_slots(ev, obj):
    return VBool(z3.And(z3.Select(ev.st.heap['slots'], obj.z) == z3.Select(ev.old.heap['slots'], obj.z),
                        z3.Select(ev.st.heap['has'], obj.z) == z3.Select(ev.old.heap['has'], obj.z)))


def sf_isprim(ev, v):
    z = to_val(v)
    return VBool(z3.Or(T.Val.is_VI(z), T.Val.is_VB(z), T.Val.is_VN(z), T.Val.is_VBy(z), T.Val.is_VS(z)))


def _i(ev, v):
    return ev.eng.as_int(v)[0]


def sf_lshift(ev, x, s):
    return VInt(T.mulf(_i(ev, x), T.pow2(_i(ev, s))))


def sf_rshift(ev, x, s):
    return VInt(T.py_floordiv(_i(ev, x), T.pow2(_i(ev, s))))


def sf_band(ev, x, m):
    from .symex import band
    return VInt(band(_i(ev, x), _i(ev, m)))


def sf_bor(ev, a, b):
    from .symex import bor
    return VInt(bor(_i(ev, a), _i(ev, b)))


def sf_bnot(ev, m):
    return VInt(-_i(ev, m) - 1)


def sf_sync_len_pack(ev, c):
    return VInt(z3.Function('sync_len_pack', T.I, T.I)(c.z))


def sf_unchanged_view(ev, fr):
    """no byte stored or removed: the chunk dictionary of the buffer is as before"""
    st, old = ev.st, ev.old
    cs = []
    for suf in ('#has', '#val'):
        key = 'Fragments.fragments' + suf
        cs.append(z3.Select(st.heap[key], fr.z) == z3.Select(old.heap[key], fr.z))
    return VBool(z3.And(cs))


def sf_wsum(ev, fields, lo, hi):
    """sum of the declared widths (ghost_w) of the Bits fields fields[lo:hi] (list of (name, field) pairs);
    defined by its unfolding at the lower end"""
    from .values import tuple_parts
    arr = z3.Select(ev.st.heap['lat'], fields.z)
    gw = ev.st.heap['Bits.ghost_w']
    f = z3.Function('wsum', arr.sort(), gw.sort(), T.I, T.I, T.I)
    key = ('wsum',)
    if key not in ev.eng._facts_added:
        # one generic pair of defining axioms (quantified over the list contents and the width table too, so
        # that the triggers never contain the lambda / store terms of a particular heap version)
        ev.eng._facts_added.add(key)
        a, b = z3.Ints('a!ws b!ws')
        A = z3.Const('A!ws', arr.sort())
        W = z3.Const('W!ws', gw.sort())
        w_a = z3.Select(W, T.Val.rval(tuple_parts(z3.Select(A, a), 2)[1][1]))
        ev.eng.extra_hyps.append(z3.ForAll([A, W, a, b], z3.Implies(a >= b, f(A, W, a, b) == 0), patterns=[f(A, W, a, b)]))
        ev.eng.extra_hyps.append(z3.ForAll([A, W, a, b], z3.Implies(a < b, f(A, W, a, b) == w_a + f(A, W, a + 1, b)),
                                           patterns=[f(A, W, a, b)]))
    return VInt(f(arr, gw, ev.eng.as_int(lo)[0], ev.eng.as_int(hi)[0]))


def sf_hasattr_bit_count(ev, f):
    return VBool(z3.Select(ev.st.heap['Bits.bit_count?'], f.z))


def sf_forall_slots_fresh(ev, v):
    z = to_val(v)
    r = z3.If(T.Val.is_VL(z), T.Val.lval(z), z3.If(T.Val.is_VR(z), T.Val.rval(z), T.Val.oval(z)))
    nm = z3.String('n!fs')
    sv = z3.Select(z3.Select(ev.st.heap['slots'], r), nm)
    hv = z3.Select(z3.Select(ev.st.heap['has'], r), nm)
    prim = z3.Or(T.Val.is_VI(sv), T.Val.is_VB(sv), T.Val.is_VN(sv), T.Val.is_VBy(sv), T.Val.is_VS(sv))
    ref = z3.If(T.Val.is_VL(sv), T.Val.lval(sv), z3.If(T.Val.is_VR(sv), T.Val.rval(sv), T.Val.oval(sv)))
    body = z3.Implies(hv, z3.Or(prim, ref >= ev.old.heap['next']))
    if ev.goal:
        n0 = z3.String('n!fs%d' % id(v))
        return VBool(z3.substitute(body, (nm, n0)))
    return VBool(z3.ForAll([nm], body))


def sf_isprim_or_blob(ev, v):
    z = to_val(v)
    return VBool(z3.Or(T.Val.is_VI(z), T.Val.is_VB(z), T.Val.is_VN(z), T.Val.is_VBy(z), T.Val.is_VS(z),
                       z3.And(T.Val.is_VO(z), z3.Function('is_pickle_blob', T.I, T.B)(T.Val.oval(z)))))


SPECFUNCS = {k[3:]: v for k, v in list(globals().items()) if k.startswith('sf_')}


# ---------------------------------------------------------------- environment model (C15): readers and constructors
def _envsf():
    from . import envmodel as E
    from .envmodel import VContent

    def arr(key):
        return lambda ev, p: ev.st.ghost['env.' + key].z

    def rd(key, wrap):
        def f(ev, p):
            return wrap(z3.Select(ev.st.ghost['env.' + key].z, p.z))
        return f
    TEMPLATE = "BISTURI_PACKET_COOKIE = '\x00'\n"

    def sha2(p, u):
        return E.sha1hex(E.hupd(E.hupd(E.hempty, E.utf8(p)), E.utf8(u)))

    def cookie_line(k):
        return z3.Function('fstring1', T.S, T.Val, T.S)(z3.StringVal(TEMPLATE), T.Val.VS(k))

    def rendered(i, k, p, u):
        return E.capp(E.capp(E.capp(E.capp(E.cempty, i), k), p), u)
    hi = z3.Function('honest_import_code', E.Content, T.S)
    hp = z3.Function('honest_pack_code', E.Content, T.S)
    hu = z3.Function('honest_unpack_code', E.Content, T.S)

    def honest(c):
        return c == rendered(hi(c), cookie_line(sha2(hp(c), hu(c))), hp(c), hu(c))
    codefn = z3.Function('codefn', T.S, T.S, T.I)
    d = {
        'fs_exists': rd('fs_exists', VBool), 'fs_content': rd('fs_content', VContent), 'fs_stamp': rd('fs_stamp', VInt),
        'pyc_exists': rd('pyc_exists', VBool), 'pyc_code': rd('pyc_code', VContent), 'pyc_stamp': rd('pyc_stamp', VInt),
        'mod_loaded': rd('mod_loaded', VBool),
        'mod_ref': lambda ev, p: VRef(z3.Select(ev.st.ghost['env.mod_ref'].z, p.z), 'Module'),
        'rendered': lambda ev, i, k, p, u: VContent(rendered(i.z, k.z, p.z, u.z)),
        'cookie_line': lambda ev, k: VStr(cookie_line(k.z)),
        'cookie_of': lambda ev, p, u: VStr(sha2(p.z, u.z)),
        'honest': lambda ev, c: VBool(honest(c.z)),
        'honest_pack_code': lambda ev, c: VStr(hp(c.z)), 'honest_unpack_code': lambda ev, c: VStr(hu(c.z)),
        'honest_import_code': lambda ev, c: VStr(hi(c.z)),
        'exec_outcome': lambda ev, c: VInt(E.exec_outcome(c.z)),
        'defines': lambda ev, c, n: VBool(E.defines(c.z, n.z)),
        'defval': lambda ev, c, n: VDyn(E.defval(c.z, n.z)),
        'codefn': lambda ev, kind, code: VDyn(T.Val.VF(codefn(kind.z, code.z))),
        'generic_pack': lambda ev: VDyn(T.Val.VF(z3.Int('GENERIC_PACK_IMPL'))),
        'generic_unpack': lambda ev: VDyn(T.Val.VF(z3.Int('GENERIC_UNPACK_IMPL'))),
        'dont_write_bytecode': lambda ev: ev.st.ghost['env.dont_write_bytecode'],
        'cachepath': lambda ev, p: VStr(E.cachepath(p.z)),
        'isfunction': lambda ev, v: VBool(T.Val.is_VF(to_val(v))),
        # the two code strings a cookie was computed from (inverse of cookie_of: sha1 collision-free, self-delimiting codes)
        'cookie_pack_code': lambda ev, k: VStr(z3.Function('unutf8', T.Bytes, T.S)(z3.Function('hlast', E.HAcc, T.Bytes)(
            z3.Function('hprev', E.HAcc, E.HAcc)(z3.Function('unsha', T.S, E.HAcc)(k.z))))),
        'cookie_unpack_code': lambda ev, k: VStr(z3.Function('unutf8', T.Bytes, T.S)(z3.Function('hlast', E.HAcc, T.Bytes)(
            z3.Function('unsha', T.S, E.HAcc)(k.z)))),
        'strval': lambda ev, v: VStr(T.Val.sval(to_val(v))),
        'is_tmp': lambda ev, p: VBool(E.is_tmp_path(p.z)),
    }
    return d


SPECFUNCS.update(_envsf())


# ---------------------------------------------------------------- regular-expression text (C18)
def _rxsf():
    esc = z3.Function('re_escape', T.Bytes, T.Bytes)
    lang = z3.Function('rx_lang', T.Bytes, T.Bytes, T.B)       # s is in the language of the pattern text (full match, (?s))
    strfmt = z3.Function('strfmt', T.S, T.Val, T.S)
    enc = z3.Function('encode_ascii', T.S, T.Bytes)

    def dotn(n):                                                # the text b".{n}" exactly as the code builds it
        return enc(strfmt(z3.StringVal('.{%i}'), T.Val.VI(n)))
    def hole(n):                                                # the text b"(?:.{n})" exactly as the code builds it
        return enc(strfmt(z3.StringVal('(?:.{%i})'), T.Val.VI(n)))

    def folds(ev, f):
        """(rxfold, rxbegin): the assembled text and the running end position after the first j pieces (in position
        order) of the regexp buffer f - defined by their unfolding (axioms added once per heap version)"""
        st = ev.st
        hrx = z3.Select(st.heap['FragmentsOfRegexps.regexp_by_position#has'], f.z)
        vrx = z3.Select(st.heap['FragmentsOfRegexps.regexp_by_position#val'], f.z)
        vfr = z3.Select(st.heap['Fragments.fragments#val'], f.z)
        sk = z3.Function('dsorted_key', hrx.sort(), T.I, T.I)
        F = z3.Function('rxfold', hrx.sort(), vrx.sort(), vfr.sort(), T.I, T.Bytes)
        Bg = z3.Function('rxbegin', hrx.sort(), vrx.sort(), vfr.sort(), T.I, T.I)
        key = ('rxfold',)
        if key not in ev.eng._facts_added:
            ev.eng._facts_added.add(key)
            H = z3.Const('H!rf', hrx.sort()); R = z3.Const('R!rf', vrx.sort()); Fr = z3.Const('F!rf', vfr.sort())
            j = z3.Int('j!rf')
            kj = sk(H, j)
            gap = kj - Bg(H, R, Fr, j)
            step = z3.If(gap > 0, T.bconcat(T.bconcat(F(H, R, Fr, j), hole(gap)), z3.Select(R, kj)),
                         T.bconcat(F(H, R, Fr, j), z3.Select(R, kj)))
            ev.eng.extra_hyps += [
                z3.ForAll([H, R, Fr], z3.And(F(H, R, Fr, 0) == T.bempty, Bg(H, R, Fr, 0) == 0), patterns=[F(H, R, Fr, 0)]),
                z3.ForAll([H, R, Fr, j], z3.Implies(j >= 0, z3.And(F(H, R, Fr, j + 1) == step,
                                                                    Bg(H, R, Fr, j + 1) == kj + T.blen(z3.Select(Fr, kj)))),
                          patterns=[F(H, R, Fr, j + 1)]),
                z3.ForAll([H, R, Fr, j], z3.Implies(j >= 0, Bg(H, R, Fr, j + 1) == kj + T.blen(z3.Select(Fr, kj))),
                          patterns=[Bg(H, R, Fr, j + 1)]),
            ]
        return (lambda n: F(hrx, vrx, vfr, n)), (lambda n: Bg(hrx, vrx, vfr, n))

    return {
        'rxfold': lambda ev, f, n: VBytes(folds(ev, f)[0](ev.eng.as_int(n)[0])),
        'rxbegin': lambda ev, f, n: VInt(folds(ev, f)[1](ev.eng.as_int(n)[0])),
        'hole_rx': lambda ev, n: VBytes(hole(ev.eng.as_int(n)[0])),
        're_escape': lambda ev, b: VBytes(esc(b.z)),
        'lang': lambda ev, rx, s: VBool(lang(rx.z, s.z)),
        'dot_n': lambda ev, n: VBytes(dotn(ev.eng.as_int(n)[0])),
    }


SPECFUNCS.update(_rxsf())
def _confz(v):
    if hasattr(v, 'z'):
        return v.z
    if v.kind == 'dictlit':      # a dict display {k: v, ...} with constant str keys
        has = z3.K(T.S, z3.BoolVal(False))
        val = z3.K(T.S, T.Val.VN)
        for key, x in v.items:
            kz = key.z if hasattr(key, 'z') else z3.StringVal(key)
            has = z3.Store(has, kz, True)
            val = z3.Store(val, kz, to_val(x))
        return T.Conf.mkconf(has, val)
    raise Untranslated('not an option dictionary: %s' % v.kind)


SPECFUNCS['sameconf'] = lambda ev, a, b: VBool(_confz(a) == _confz(b))     # the same option dictionary (as a value)


def _sf_hasattr_tmp(ev, f):
    for cls in ('Optional', 'Sequence'):
        if ev.eng.is_subclass(f.cls, cls):
            return VBool(z3.Select(ev.st.heap['%s.tmp?' % cls], f.z))
    raise Untranslated('hasattr_tmp of %s' % f.cls)


SPECFUNCS['hasattr_tmp'] = _sf_hasattr_tmp


def _bm(ev, obj, name):
    return VDyn(T.Val.VF(z3.Function('bound_method', T.Val, T.S, T.I)(to_val(obj), name.z)))


SPECFUNCS['bound_method'] = _bm
SPECFUNCS['has_method'] = lambda ev, obj, name: VBool(z3.Function('has_method', T.Val, T.S, T.B)(to_val(obj), name.z))


def _hookcount(ev, builder, name, i):
    """number of table entries k < i whose field is described and whose descriptor has the method `name`
    (defined by its unfolding at the upper end; axioms quantified over the heap arrays as for wsum)"""
    from .values import tuple_parts
    st = ev.st
    arr = z3.Select(st.heap['lat'], z3.Select(st.heap['PacketClassBuilder.fields'], builder.z))
    desc = st.heap['Field.descriptor']
    f = z3.Function('hookcount', arr.sort(), desc.sort(), T.S, T.I, T.I)
    key = ('hookcount',)
    if key not in ev.eng._facts_added:
        ev.eng._facts_added.add(key)
        A = z3.Const('A!hc', arr.sort()); D = z3.Const('D!hc', desc.sort()); n = z3.String('n!hc'); k = z3.Int('k!hc'); k2 = z3.Int('k2!hc')
        dk = z3.Select(D, T.Val.rval(tuple_parts(z3.Select(A, k), 2)[1][1]))
        truthy = z3.Not(T.Val.is_VN(dk))       # (descriptors are None or objects: precondition of the contract)
        hasm = z3.Function('has_method', T.Val, T.S, T.B)(dk, n)
        ev.eng.extra_hyps += [
            z3.ForAll([A, D, n], f(A, D, n, 0) == 0, patterns=[f(A, D, n, 0)]),
            z3.ForAll([A, D, n, k], z3.Implies(k >= 0, f(A, D, n, k + 1) == f(A, D, n, k) + z3.If(z3.And(truthy, hasm), 1, 0)),
                      patterns=[f(A, D, n, k + 1)]),
            z3.ForAll([A, D, n, k], z3.Implies(k >= 0, z3.And(f(A, D, n, k) >= 0, f(A, D, n, k) <= k)), patterns=[f(A, D, n, k)]),
            # monotone (derived from the unfolding by induction on the distance; stated as an axiom)
            z3.ForAll([A, D, n, k, k2], z3.Implies(z3.And(0 <= k, k <= k2), f(A, D, n, k) <= f(A, D, n, k2)),
                      patterns=[z3.MultiPattern(f(A, D, n, k), f(A, D, n, k2))]),
            # ... strictly across an entry that contributes a hook (same induction)
            z3.ForAll([A, D, n, k, k2], z3.Implies(z3.And(0 <= k, k < k2, truthy, hasm), f(A, D, n, k) < f(A, D, n, k2)),
                      patterns=[z3.MultiPattern(f(A, D, n, k), f(A, D, n, k2))]),
        ]
    return VInt(f(arr, desc, name.z, ev.eng.as_int(i)[0]))


SPECFUNCS['hookcount'] = _hookcount

SPECFUNCS['isobject'] = lambda ev, v: VBool(T.Val.is_VR(to_val(v)))

SPECFUNCS['isexpr'] = lambda ev, v: VBool(z3.Or(ev.eng.isinst(ev.st, v, 'UnaryExpr'), ev.eng.isinst(ev.st, v, 'BinaryExpr'), ev.eng.isinst(ev.st, v, 'NaryExpr')))
