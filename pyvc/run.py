"""Verify a set of contracts against the real code; shared by ./check and by development."""
import sys, time, traceback
import z3
from .symex import Engine
from .values import Untranslated
from .solve import to_smt2, solve_all
from .specfuncs import SPECFUNCS
from . import theory as T


def make_engine(classes, contracts, extra=None):
    eng = Engine(classes, contracts, specfuncs=dict(SPECFUNCS))
    from contracts import schema
    eng.disjoint_classes = schema.DISJOINT
    eng.class_aliases = {}
    eng.module_funcs = {
        'compile_expr_into_callable': 'role:compile_expr_into_callable',
        'convert_a_field_raw_condition_into_a_boolean_unary_expression': 'role:convert_a_field_raw_condition_into_a_boolean_unary_expression',
        'normalize_raw_condition_into_a_callable': 'structural_fields:normalize_raw_condition_into_a_callable',
        'normalize_count_condition_into_a_callable': 'structural_fields:normalize_count_condition_into_a_callable',
    }
    eng.module_funcs = {k: v for k, v in eng.module_funcs.items() if v in contracts}
    eng.globals = {}
    eng.callable_classes = set()
    if extra:
        extra(eng)
    return eng


def group_script(eng, core_hyps, obls):
    """One SMT-LIB script for all obligations that share their hypotheses:
    (assert hyps) (assert (= p_i (not goal_i))) ... (check-sat-assuming (p_i)) per obligation."""
    hyps, used = eng.final_hyps(core_hyps, [o.goal for o in obls])
    s = z3.Solver()
    for h in hyps:
        s.add(h)
    ps = []
    for i, o in enumerate(obls):
        p = z3.Bool('pyvc_goal_%d' % i)
        s.add(z3.Implies(p, z3.Not(o.goal)))
        ps.append('pyvc_goal_%d' % i)
    text = s.to_smt2()
    k = text.rindex('(check-sat)')
    return text[:k], ps


def gen_function(classes, contracts, name, extra=None):
    """returns dict(name, sha, groups=[dict(prelude, checks=[(oname, kind, info, pvar)])],
    obligations=[(oname, kind, None|'g', info)], error, assumptions)"""
    # the executor is written in continuation-passing style: deep but finite python recursion; run it in a
    # thread with a large stack
    import threading
    box = {}

    def work():
        box['r'] = _gen_function(classes, contracts, name, extra)
    old = sys.getrecursionlimit()
    sys.setrecursionlimit(200000)
    threading.stack_size(512 * 1024 * 1024)
    t = threading.Thread(target=work)
    t.start()
    t.join()
    sys.setrecursionlimit(old)
    threading.stack_size(0)
    if 'r' not in box:
        return dict(name=name, sha=None, obligations=[], groups=[], error='CRASH: generator thread died', assumptions=[], paths=0)
    return box['r']


def _gen_function(classes, contracts, name, extra=None):
    eng = make_engine(classes, contracts, extra)
    c = contracts[name]
    out = dict(name=name, sha=None, obligations=[], groups=[], error=None, assumptions=[], paths=0)
    try:
        obs = eng.verify_function(c)
        out['sha'] = eng.source_sha
        seen = {}
        groups = {}
        for o in obs:
            nm = o.name
            if nm in seen:
                seen[nm] += 1
                nm = '%s~%d' % (nm, seen[o.name])
            else:
                seen[nm] = 0
            o.uname = nm
            if not o.hyps and z3.is_true(o.goal):
                out['obligations'].append((nm, o.kind, None, o.info))
            else:
                out['obligations'].append((nm, o.kind, 'g', o.info))
                key = (o.kind == 'frame',) + tuple(h.get_id() for h in o.hyps)
                groups.setdefault(key, (o.hyps, []))[1].append(o)
        for key, (hyps, obls) in groups.items():
            prelude, ps = group_script(eng, hyps, obls)
            out['groups'].append(dict(prelude=prelude, checks=[(o.uname, o.kind, o.info, p) for o, p in zip(obls, ps)]))
        out['assumptions'] = sorted(eng.used_assumptions)
        out['paths'] = len(eng.paths_ended)
        out['dropped_prefix'] = getattr(eng, 'dropped_prefix', None)
        from . import extract as _ex
        out['alpha_renamed'] = dict(_ex.ALPHA_RENAMED)
        out['helpers_inlined'] = getattr(eng, 'helper_sources', {})
        out['path_list'] = eng.paths_ended
    except KeyError as e:
        if 'not found' in str(e):
            # the function under contract does not exist any more (removed / renamed): a named obligation that fails
            nm = '%s/-/the function under contract exists in the source' % name
            out['sha'] = 'missing'
            out['obligations'].append((nm, 'structure', 'g', str(e)))
            out['groups'].append(dict(prelude='(declare-fun pyvc_goal_0 () Bool)\n(assert (=> pyvc_goal_0 true))\n',
                                      checks=[(nm, 'structure', str(e), 'pyvc_goal_0')]))
        else:
            out['error'] = 'CRASH: %s\n%s' % (e, ''.join(traceback.format_exc().splitlines(True)[-12:]))
    except Untranslated as e:
        out['error'] = 'UNTRANSLATED: %s' % e
    except Exception as e:
        out['error'] = 'CRASH: %s\n%s' % (e, ''.join(traceback.format_exc().splitlines(True)[-12:]))
    return out


def solve_function(r, timeout_ms=10000, second=True, short=()):
    """discharge all obligations of a gen_function result -> dict oname -> (result, backend, secs, model)"""
    from .solve import solve_groups
    res = {o[0]: ('unsat', 'trivial', 0.0, '') for o in r['obligations'] if o[2] is None}
    res.update(solve_groups(r['groups'], timeout_ms=timeout_ms, second=second, short=short))
    return res


def main():
    import importlib
    from contracts import schema
    mods = sys.argv[1].split(',')
    contracts = {}
    for m in mods:
        contracts.update(importlib.import_module('contracts.' + m).CONTRACTS)
    names = [a for a in sys.argv[2:] if not a.startswith('-')] or [n for n, c in contracts.items() if not c.role]
    tot = 0
    for n in names:
        t0 = time.time()
        r = gen_function(schema.CLASSES, contracts, n)
        if r['error']:
            print('==', n, r['error'])
            continue
        tg = time.time() - t0
        res = solve_function(r, timeout_ms=10000)
        if '-t' in sys.argv:
            print('   gen %.1fs; slowest:' % tg, sorted([(round(v[2], 2), k[-60:]) for k, v in res.items()], reverse=True)[:5])
        bad = [(o, res[o[0]]) for o in r['obligations'] if res[o[0]][0] != 'unsat']
        print('== %s: %d obligations, %d paths, %d not discharged, %.1fs' % (
            n, len(r['obligations']), r['paths'], len(bad), time.time() - t0))
        for o, rr in bad:
            print('   ', rr[0], o[0], '|', o[3][:100])
            if '-v' in sys.argv and rr[0] == 'sat':
                print(rr[3][:3000])
        tot += len(r['obligations'])
    print('total obligations', tot)


if __name__ == '__main__':
    main()
