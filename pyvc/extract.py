"""Locate the real function bodies in /repo (or $PYVC_REPO) by qualified name.

Nothing is copied into /verif: the text that is verified is parsed from the
working tree on every run.  Qualified names: ``module:Class.method``,
``module:function``, nested functions ``outer.inner``, lambdas
``outer.<lambda#n>`` (n = ordinal in source order inside ``outer``).
"""
import ast, hashlib, os

REPO = os.environ.get('PYVC_REPO', '/repo')

_cache = {}


GHOST_DIR = os.path.join(os.path.dirname(os.path.dirname(os.path.abspath(__file__))), 'contracts')


def module_path(mod):
    if mod.startswith('ghost_'):
        # ghost clients: lemma-carrying client code that lives in /verif and only CALLS functions of the
        # repository through their contracts (never a replacement for repository code)
        return os.path.join(GHOST_DIR, mod + '.py')
    return os.path.join(REPO, 'bisturi', mod + '.py')


def load_module(mod):
    p = module_path(mod)
    key = (p, os.path.getmtime(p))
    if key not in _cache:
        src = open(p).read()
        _cache[key] = (src, ast.parse(src))
    return _cache[key]


def _find_in(body, name):
    for node in body:
        if isinstance(node, (ast.FunctionDef, ast.ClassDef)) and node.name == name:
            return node
        # functions defined inside if/else/try at this level
        for sub in ('body', 'orelse', 'finalbody'):
            if isinstance(node, (ast.If, ast.Try, ast.With, ast.For, ast.While)) and hasattr(node, sub):
                r = _find_in(getattr(node, sub), name)
                if r is not None:
                    return r
    return None


def _lambdas_in(fn):
    out = []

    class V(ast.NodeVisitor):
        def visit_Lambda(self, node):
            out.append(node)
            self.generic_visit(node)
    for s in fn.body:
        V().visit(s)
    return out


def find_function(qualname):
    """Return (ast node, source segment, sha256) for ``module:Qual.name``."""
    mod, path = qualname.split(':')
    src, tree = load_module(mod)
    node = tree
    body = tree.body
    for part in path.split('.'):
        if part.startswith('<lambda#'):
            n = int(part[len('<lambda#'):-1])
            lams = _lambdas_in(node)
            if n >= len(lams):
                raise KeyError('%s: only %d lambdas' % (qualname, len(lams)))
            node = lams[n]
            body = []
            continue
        nxt = _find_in(body, part)
        if nxt is None:
            raise KeyError('%s: %r not found' % (qualname, part))
        node = nxt
        body = node.body
    seg = ast.get_source_segment(src, node) or ''
    sha = hashlib.sha256(seg.encode()).hexdigest()
    if REPO != GHOST_DIR and not mod.startswith('ghost_'):
        alpha_normalise(qualname, node, sha)
    return node, seg, sha


def alpha_info(node):
    """(names of the locals of a function in order of first appearance, sha256 of the body with every local replaced by
    its position) - two functions with the same hash differ only in the NAMES of their locals.  None when the function
    has nested scopes that shadow a local, or global / nonlocal declarations."""
    if not isinstance(node, ast.FunctionDef):
        return None
    params = set(a.arg for a in node.args.posonlyargs + node.args.args + node.args.kwonlyargs)
    for a in (node.args.vararg, node.args.kwarg):
        if a is not None:
            params.add(a.arg)
    bound, inner_params = [], set()
    for sub in ast.walk(node):
        if isinstance(sub, (ast.Global, ast.Nonlocal, ast.ClassDef)):
            return None
        if sub is not node and isinstance(sub, (ast.FunctionDef, ast.Lambda)):
            aa = sub.args
            inner_params |= set(a.arg for a in aa.posonlyargs + aa.args + aa.kwonlyargs)
            for a in (aa.vararg, aa.kwarg):
                if a is not None:
                    inner_params.add(a.arg)
            if isinstance(sub, ast.FunctionDef):
                return None
        if isinstance(sub, (ast.ListComp, ast.SetComp, ast.DictComp, ast.GeneratorExp)):
            for g in sub.generators:
                inner_params |= set(n.id for n in ast.walk(g.target) if isinstance(n, ast.Name))
    order = []

    class Vis(ast.NodeVisitor):         # source order
        def visit_Name(self, n):
            if isinstance(n.ctx, (ast.Store, ast.Del)) and n.id not in params and n.id not in order:
                order.append(n.id)

        def visit_ExceptHandler(self, n):
            if n.name and n.name not in params and n.name not in order:
                order.append(n.name)
            self.generic_visit(n)

        def _inner(self, n):        # names bound inside comprehensions / lambdas live in their own scope
            pass
        visit_ListComp = visit_SetComp = visit_DictComp = visit_GeneratorExp = visit_Lambda = _inner
    for st_ in node.body:
        Vis().visit(st_)
    if set(order) & inner_params:
        return None
    idx = {nm: i for i, nm in enumerate(order)}
    import copy
    clone = copy.deepcopy(node)
    for sub in ast.walk(clone):
        if isinstance(sub, ast.Name) and sub.id in idx:
            sub.id = '_L%d' % idx[sub.id]
        if isinstance(sub, ast.ExceptHandler) and sub.name in idx:
            sub.name = '_L%d' % idx[sub.name]
    body = strip_docstring(clone.body)
    text = '\n'.join(ast.dump(b) for b in body)
    return order, hashlib.sha256(text.encode()).hexdigest()


_ALPHA_BASE = None


def alpha_base():
    """function -> (sha256, locals, alpha hash) as recorded in /verif/baseline/*.json at the last rebaseline"""
    global _ALPHA_BASE
    if _ALPHA_BASE is None:
        import json
        _ALPHA_BASE = {}
        bdir = os.path.join(os.path.dirname(GHOST_DIR), 'baseline')
        for f in sorted(os.listdir(bdir)) if os.path.isdir(bdir) else []:
            try:
                d = json.load(open(os.path.join(bdir, f)))
            except Exception:
                continue
            for fn, rec in d.items():
                if isinstance(rec, dict) and rec.get('alpha'):
                    _ALPHA_BASE[fn.split('#')[-1]] = (rec.get('sha256'), rec.get('locals'), rec.get('alpha'))
    return _ALPHA_BASE


ALPHA_RENAMED = {}


def alpha_normalise(qualname, node, sha):
    """If the function differs from its baseline version ONLY in the names of its locals, rename them back (in the parsed
    tree, in place, once): contracts name locals in loop invariants.  Mechanical and semantics-preserving; recorded in
    ALPHA_RENAMED and reported in the evidence."""
    base = alpha_base().get(qualname)
    if base is None or base[0] == sha or getattr(node, '_alpha_done', False):
        return
    node._alpha_done = True
    info = alpha_info(node)
    if info is None or info[1] != base[2] or info[0] == base[1] or len(info[0]) != len(base[1] or []):
        return
    ren = dict(zip(info[0], base[1]))
    # two-step renaming (names may be swapped)
    for sub in ast.walk(node):
        if isinstance(sub, ast.Name) and sub.id in ren:
            sub.id = '\0' + ren[sub.id]
        if isinstance(sub, ast.ExceptHandler) and sub.name in ren:
            sub.name = '\0' + ren[sub.name]
    for sub in ast.walk(node):
        if isinstance(sub, ast.Name) and sub.id.startswith('\0'):
            sub.id = sub.id[1:]
        if isinstance(sub, ast.ExceptHandler) and sub.name and sub.name.startswith('\0'):
            sub.name = sub.name[1:]
    ALPHA_RENAMED[qualname] = {k: v for k, v in ren.items() if k != v}


def strip_docstring(body):
    """Drop bare string-constant expression statements (docstrings)."""
    return [s for s in body
            if not (isinstance(s, ast.Expr) and isinstance(s.value, ast.Constant)
                    and isinstance(s.value.value, str))]
