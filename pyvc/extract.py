"""Locate the real function bodies in /repo (or $PYVC_REPO) by qualified name.

Nothing is copied into /verif: the text that is verified is parsed from the
working tree on every run.  Qualified names: ``module:Class.method``,
``module:function``, nested functions ``outer.inner``, lambdas
``outer.<lambda#n>`` (n = ordinal in source order inside ``outer``).
"""
import ast, hashlib, os

REPO = os.environ.get('PYVC_REPO', '/repo')

_cache = {}


GHOST_DIR = os.path.join(os.path.dirname(os.path.dirname(os.path.abspath(__file__))), 'contracts')


def module_path(mod):
    if mod.startswith('ghost_'):
        # ghost clients: lemma-carrying client code that lives in /verif and only CALLS functions of the
        # repository through their contracts (never a replacement for repository code)
        return os.path.join(GHOST_DIR, mod + '.py')
    return os.path.join(REPO, 'bisturi', mod + '.py')


def load_module(mod):
    p = module_path(mod)
    key = (p, os.path.getmtime(p))
    if key not in _cache:
        src = open(p).read()
        _cache[key] = (src, ast.parse(src))
    return _cache[key]


def _find_in(body, name):
    for node in body:
        if isinstance(node, (ast.FunctionDef, ast.ClassDef)) and node.name == name:
            return node
        # functions defined inside if/else/try at this level
        for sub in ('body', 'orelse', 'finalbody'):
            if isinstance(node, (ast.If, ast.Try, ast.With, ast.For, ast.While)) and hasattr(node, sub):
                r = _find_in(getattr(node, sub), name)
                if r is not None:
                    return r
    return None


def _lambdas_in(fn):
    out = []

    class V(ast.NodeVisitor):
        def visit_Lambda(self, node):
            out.append(node)
            self.generic_visit(node)
    for s in fn.body:
        V().visit(s)
    return out


def find_function(qualname):
    """Return (ast node, source segment, sha256) for ``module:Qual.name``."""
    mod, path = qualname.split(':')
    src, tree = load_module(mod)
    node = tree
    body = tree.body
    for part in path.split('.'):
        if part.startswith('<lambda#'):
            n = int(part[len('<lambda#'):-1])
            lams = _lambdas_in(node)
            if n >= len(lams):
                raise KeyError('%s: only %d lambdas' % (qualname, len(lams)))
            node = lams[n]
            body = []
            continue
        nxt = _find_in(body, part)
        if nxt is None:
            raise KeyError('%s: %r not found' % (qualname, part))
        node = nxt
        body = node.body
    seg = ast.get_source_segment(src, node) or ''
    return node, seg, hashlib.sha256(seg.encode()).hexdigest()


def strip_docstring(body):
    """Drop bare string-constant expression statements (docstrings)."""
    return [s for s in body
            if not (isinstance(s, ast.Expr) and isinstance(s.value, ast.Constant)
                    and isinstance(s.value.value, str))]
