"""The run-time twin: a concrete interpreter of the contract language, evaluated around the
*real* functions of /repo (DESIGN.md 2.8).  Used (1) to replay / search concrete witnesses
for refuted obligations, (2) as a bounded cross-check that proved contracts really hold on
executions of the real code, (3) as vacuity witness for preconditions.  Never counted as proof.

Runs in a separate interpreter process with PYTHONPATH=<repo>; imports nothing from z3.
"""
import ast, copy, random, struct as _struct, sys, traceback, bisect, importlib, os, json

copy._deepcopy_dispatch[_struct.Struct] = copy._deepcopy_atomic     # immutable, not picklable

UNDEF = object()
QDOMAIN = range(-1, 24)      # domain of unbounded integer quantifiers (bounded approximation)


class Undefined(Exception):
    pass


class Kw(dict):
    pass


def load_macros():
    """(name -> (params, body)) from the contract modules, without importing z3: the contract
    files are scanned for define('sig', 'body') calls."""
    macros = {}
    cdir = os.path.join(os.path.dirname(os.path.dirname(os.path.abspath(__file__))), 'contracts')
    for fn in sorted(os.listdir(cdir)):
        if not fn.startswith('c_') or not fn.endswith('.py'):
            continue
        tree = ast.parse(open(os.path.join(cdir, fn)).read())
        for node in ast.walk(tree):
            if isinstance(node, ast.Call) and isinstance(node.func, ast.Name) and node.func.id == 'define':
                try:
                    sig = ast.literal_eval(node.args[0])
                    body = ast.literal_eval(node.args[1])
                except Exception:
                    continue
                name, rest = sig.split('(')
                params = [p.strip() for p in rest.rstrip(')').split(',') if p.strip()]
                macros[name.strip()] = (params, body)
    return macros


MACROS = None


class CEval:
    """concrete evaluation of a contract expression"""

    def __init__(self, env, olds=None, fresh_ids=None, snapshots=None, bound=None):
        self.env = env
        self.olds = olds            # deep copy of the environment taken before the call (None: no pre-state)
        self.snapshots = snapshots or {}
        self.bound = bound or {}

    def ev(self, n):
        return getattr(self, 'e_' + type(n).__name__)(n)

    def e_Constant(self, n):
        return n.value

    def e_Name(self, n):
        if n.id in self.env:
            return self.env[n.id]
        if n.id in ('True', 'False'):
            return n.id == 'True'
        raise Undefined('name ' + n.id)

    def e_Attribute(self, n):
        b = self.ev(n.value)
        a = n.attr
        if isinstance(b, _struct.Struct):
            f = b.format
            return {'big': f[0] == '>', 'size': b.size, 'signed': f[-1].islower()}[a]
        if isinstance(b, Kw):
            return {'has_ipp': 'innermost-pkt-pos' in b, 'ipp': b.get('innermost-pkt-pos', 0),
                    'has_root': 'root' in b, 'root': b.get('root'), 'packing': b.get('packing', False)}[a]
        if a in ('pack', 'unpack') and hasattr(b, '__dict__') and a in vars(b):
            m = vars(b)[a]
            return 'field:%s.%s' % (type(b).__name__, m.__name__)
        try:
            return getattr(b, a)
        except AttributeError:
            raise Undefined('attribute ' + a)

    def e_BoolOp(self, n):
        if isinstance(n.op, ast.And):
            for v in n.values:
                if not self.truth(v):
                    return False
            return True
        for v in n.values:
            if self.truth(v):
                return True
        return False

    def truth(self, n):
        return bool(self.ev(n))

    def e_UnaryOp(self, n):
        if isinstance(n.op, ast.Not):
            return not self.truth(n.operand)
        return -self.ev(n.operand)

    def e_BinOp(self, n):
        a, b = self.ev(n.left), self.ev(n.right)
        op = type(n.op)
        try:
            if op is ast.Add:
                return a + b
            if op is ast.Sub:
                return a - b
            if op is ast.Mult:
                return a * b
            if op is ast.Mod:
                return a % b
            if op is ast.FloorDiv:
                return a // b
        except Exception as e:
            raise Undefined(repr(e))
        raise Undefined('binop')

    def e_Compare(self, n):
        left = self.ev(n.left)
        for op, r in zip(n.ops, n.comparators):
            right = self.ev(r)
            t = type(op)
            try:
                ok = {ast.Eq: lambda: left == right, ast.NotEq: lambda: left != right,
                      ast.Lt: lambda: left < right, ast.LtE: lambda: left <= right,
                      ast.Gt: lambda: left > right, ast.GtE: lambda: left >= right,
                      ast.In: lambda: left in right, ast.NotIn: lambda: left not in right,
                      ast.Is: lambda: left is right, ast.IsNot: lambda: left is not right}[t]()
            except Exception as e:
                raise Undefined(repr(e))
            if not ok:
                return False
            left = right
        return True

    def e_IfExp(self, n):
        return self.ev(n.body) if self.truth(n.test) else self.ev(n.orelse)

    def e_Tuple(self, n):
        return tuple(self.ev(x) for x in n.elts)

    def e_Subscript(self, n):
        b = self.ev(n.value)
        try:
            if isinstance(n.slice, ast.Slice):
                lo = self.ev(n.slice.lower) if n.slice.lower else None
                hi = self.ev(n.slice.upper) if n.slice.upper else None
                return b[lo:hi]
            return b[self.ev(n.slice)]
        except Undefined:
            raise
        except Exception as e:
            raise Undefined(repr(e))

    def e_Call(self, n):
        f = n.func.id
        if f == 'old':
            if self.olds is None:
                raise Undefined('old outside post-state')
            memo = self.olds.get('__memo__', {})
            tr = {k: memo.get(id(v), v) for k, v in self.bound.items()}
            return CEval(dict(self.olds, **tr), None, snapshots=self.snapshots, bound=tr).ev(n.args[0])
        if f in ('forall', 'exists'):
            lam = n.args[-1]
            names = [a.arg for a in lam.args.args]
            if len(n.args) == 3:
                lo, hi = self.ev(n.args[0]), self.ev(n.args[1])
                doms = [range(lo, hi)] * len(names)
            else:
                doms = [QDOMAIN] * len(names)
            import itertools
            for vals in itertools.product(*doms):
                b2 = dict(self.bound, **dict(zip(names, vals)))
                sub = CEval(dict(self.env, **dict(zip(names, vals))), self.olds, snapshots=self.snapshots, bound=b2)
                try:
                    r = bool(sub.ev(lam.body))
                except Undefined:
                    continue
                if f == 'forall' and not r:
                    return False
                if f == 'exists' and r:
                    return True
            return f == 'forall'
        if f == 'implies':
            return (not self.truth(n.args[0])) or self.truth(n.args[1])
        if f == 'iff':
            return self.truth(n.args[0]) == self.truth(n.args[1])
        if f == 'ite':
            return self.ev(n.args[1]) if self.truth(n.args[0]) else self.ev(n.args[2])
        if f == 'using':
            return self.ev(n.args[1])
        if f in MACROS:
            params, body = MACROS[f]
            node = parse(body)
            args = [self.ev(a) for a in n.args]
            b2 = dict(self.bound, **dict(zip(params, args)))
            sub = CEval(dict(self.env, **dict(zip(params, args))), self.olds, snapshots=self.snapshots, bound=b2)
            return sub.ev(node)
        fn = SPEC.get(f)
        if fn is None:
            raise Undefined('spec function ' + f)
        args = [self.ev(a) for a in n.args]
        kwargs = {kw.arg: self.ev(kw.value) for kw in n.keywords}
        return fn(self, *args, **kwargs)


_parsed = {}


def parse(src):
    if src not in _parsed:
        _parsed[src] = ast.parse(src, mode='eval').body
    return _parsed[src]


def expand_macros(node):
    """inline macro calls (needed so that old(...) inside macro bodies is found)"""
    class T(ast.NodeTransformer):
        def visit_Call(self, n):
            self.generic_visit(n)
            if isinstance(n.func, ast.Name) and n.func.id in MACROS:
                params, body = MACROS[n.func.id]
                b = copy.deepcopy(parse(body))
                b = T().visit(b)
                m = dict(zip(params, n.args))

                class S(ast.NodeTransformer):
                    def visit_Name(self, x):
                        return copy.deepcopy(m[x.id]) if x.id in m else x

                    def visit_Lambda(self, x):
                        bound = {a.arg for a in x.args.args}
                        saved = {k: m.pop(k) for k in list(m) if k in bound}
                        self.generic_visit(x)
                        m.update(saved)
                        return x
                return S().visit(b)
            return n
    return T().visit(copy.deepcopy(node))


def old_nodes(node):
    out = []
    for x in ast.walk(node):
        if isinstance(x, ast.Call) and isinstance(x.func, ast.Name) and x.func.id == 'old':
            out.append(x)
    return out


def has_free_quant_var(node, oldnode):
    """old(...) whose argument mentions a quantifier variable cannot be pre-evaluated"""
    names = {x.id for x in ast.walk(oldnode) if isinstance(x, ast.Name)}
    bound = set()
    for x in ast.walk(node):
        if isinstance(x, ast.Lambda):
            bound |= {a.arg for a in x.args.args}
    return bool(names & bound)


# ------------------------------------------------------------------ concrete spec functions
def _isint(v):
    return isinstance(v, int)


def s_cb(ev, fn, **kw):
    k = kw.pop('k', {})
    return fn(**kw, **k)


def s_cb_raises(ev, fn, **kw):
    k = kw.pop('k', {})
    try:
        fn(**kw, **k)
        return False
    except Exception:
        return True


def s_unchanged(ev, obj):
    snap = ev.snapshots.get(id(obj))
    if snap is None:
        raise Undefined('no snapshot')
    return snapshot(obj) == snap


def snapshot(obj):
    d = {}
    for k, v in vars(obj).items():
        try:
            d[k] = copy.deepcopy(v)
        except Exception:
            d[k] = repr(v)
    return d


def s_bisect_right(ev, l, x):
    return bisect.bisect_right(l, x)


SPEC = {
    'len': lambda ev, x: len(x), 'bool': lambda ev, x: bool(x),
    'max': lambda ev, a, b: max(a, b), 'min': lambda ev, a, b: min(a, b),
    'slot': lambda ev, p, n: _getslot(p, n), 'hasslot': lambda ev, p, n: hasattr(p, n),
    'isint': lambda ev, v: isinstance(v, int), 'isbool': lambda ev, v: isinstance(v, bool),
    'isnone': lambda ev, v: v is None, 'isbytes': lambda ev, v: isinstance(v, bytes),
    'intval': lambda ev, v: _int(v), 'bytesval': lambda ev, v: v,
    'isinst': lambda ev, v, c: _isinst(v, c), 'asref': lambda ev, v, c: v,
    'iscallable': lambda ev, v: callable(v), 'cb': s_cb, 'cb_raises': s_cb_raises,
    'pow2': lambda ev, n: 2 ** n if n >= 0 else _undef(),
    'val': lambda ev, b, big, sg: int.from_bytes(b, 'big' if big else 'little', signed=bool(sg)),
    'intbytes': lambda ev, v, n, big, sg: _tobytes(v, n, big, sg),
    'int_lo': lambda ev, n, sg: -(2 ** (8 * n - 1)) if sg else 0,
    'int_hi': lambda ev, n, sg: 2 ** (8 * n - 1) - 1 if sg else 2 ** (8 * n) - 1,
    'pymod': lambda ev, a, b: a % b if b != 0 else _undef(),
    'find': lambda ev, s, m: s.find(m),
    'match': lambda ev, s, i, m: i >= 0 and s[i:i + len(m)] == m and i + len(m) <= len(s),
    'unchanged': s_unchanged, 'sys_byteorder': lambda ev: sys.byteorder,
    'conf_get': lambda ev, c, k, d: c.get(k, d),
    'dsize': lambda ev, d: len(d), 'skey': lambda ev, d, i: sorted(d)[i] if 0 <= i < len(d) else _undef(),
    'joined': lambda ev, l: b''.join(l), 'bisect_right': s_bisect_right,
    'fresh_since': lambda ev, r: True, 'allocated': lambda ev, r: True,
    'match_shift': lambda ev, *a: True,
    'isregex': lambda ev, v: hasattr(v, 'search') and hasattr(v, 'pattern'),
    'rx_pattern': lambda ev, v: v.pattern,
    'rx_found': lambda ev, v, buf: v.search(buf, 0) is not None,
    'rx_start': lambda ev, v, buf: _m(v, buf).start(), 'rx_end': lambda ev, v, buf: _m(v, buf).end(),
    'using': None,
    'deferred_agrees': lambda ev, fn, pkt, expected: _deferred_agrees(fn, pkt, expected),
    'truth_agrees': lambda ev, fn, pkt, expected: _truth_agrees(fn, pkt, expected),
    'istuple': lambda ev, v, n: isinstance(v, tuple) and len(v) == n,
    'tupitem': lambda ev, v, n, i: v[i],
    'same': lambda ev, a, b: (a is b) or (type(a) is type(b) and isinstance(a, (int, bytes, str, bool, type(None))) and a == b),
}


def _undef():
    raise Undefined('undefined')


def _truth_agrees(fn, pkt, expected):
    """the condition callable answers a value whose truth is the expected one (it need not be a bool)"""
    kind, val = expected
    try:
        got = fn(pkt=pkt)
    except Exception as e:
        return kind == 'raise' and type(e).__name__ == val
    return kind == 'ok' and bool(got) == bool(val)


def _deferred_agrees(fn, pkt, expected):
    kind, val = expected
    try:
        got = fn(pkt=pkt)
    except Exception as e:
        return kind == 'raise' and type(e).__name__ == val
    return kind == 'ok' and type(got) is type(val) and got == val


def _m(v, buf):
    m = v.search(buf, 0)
    if m is None:
        raise Undefined('no match')
    return m


def _getslot(p, n):
    try:
        return getattr(p, n)
    except AttributeError:
        raise Undefined('slot unset')


def _int(v):
    if isinstance(v, int):
        return int(v)
    raise Undefined('not an int')


def _tobytes(v, n, big, sg):
    try:
        return v.to_bytes(n, 'big' if big else 'little', signed=bool(sg))
    except Exception:
        raise Undefined('not representable')


def _isinst(v, cname):
    if cname in ('int', 'bytes', 'bool', 'str', 'list', 'tuple', 'dict'):
        return isinstance(v, {'int': int, 'bytes': bytes, 'bool': bool, 'str': str, 'list': list,
                              'tuple': tuple, 'dict': dict}[cname])
    return any(c.__name__ == cname for c in type(v).__mro__)


# ------------------------------------------------------------------ running one case
def holds(src, env, olds=None, snapshots=None):
    """True / False / None (undefined) for a clause; conjuncts that are undefined are skipped"""
    node = expand_macros(parse(src))
    try:
        return bool(CEval(env, olds, snapshots=snapshots).ev(node)), None
    except Undefined as e:
        # try conjunct-wise so that one undefined ghost conjunct does not hide the others
        if isinstance(node, ast.BoolOp) and isinstance(node.op, ast.And):
            allok = True
            for v in node.values:
                try:
                    if not CEval(env, olds, snapshots=snapshots).ev(v):
                        return False, None
                except Undefined:
                    continue
            return True, None
        return None, str(e)


def collect_olds(clauses, env_old):
    """prepare clauses: old(...) is evaluated lazily in the deep-copied pre-state environment"""
    return [(src, parse(src), env_old) for src in clauses]


def eval_prepared(node, env, olds, snapshots):
    try:
        return bool(CEval(env, olds, snapshots=snapshots).ev(node)), None
    except Undefined as e:
        if isinstance(node, ast.BoolOp) and isinstance(node.op, ast.And):
            for v in node.values:
                try:
                    if not CEval(env, olds, snapshots=snapshots).ev(v):
                        return False, None
                except Undefined:
                    continue
            return True, None
        return None, str(e)


EXC_ALIASES = {'StructError': _struct.error}


def exc_matches(exc, clsname):
    if clsname in ('Exception*', 'Exception'):
        return isinstance(exc, Exception)
    if clsname in EXC_ALIASES:
        return isinstance(exc, EXC_ALIASES[clsname])
    return any(c.__name__ == clsname for c in type(exc).__mro__)


def run_case(contract, fn, args, quant_old=True):
    """contract: dict(requires, ensures, raises, returns). args: ordered dict name->value
    (the kwargs parameter, if any, is a Kw).  Returns dict(valid, outcome, failed=[...])."""
    env = dict(args)
    for r in contract['requires']:
        ok, _ = holds(r, env)
        if ok is False:
            return dict(valid=False)
    post_clauses = list(contract['ensures'])
    raise_clauses = {c: list(v) for c, v in contract['raises'].items()}
    snaps = {id(v): snapshot(v) for v in args.values() if hasattr(v, '__dict__')}
    try:
        memo = {}
        env_old = copy.deepcopy(env, memo)
        env_old['__memo__'] = memo
    except Exception:
        env_old = dict(env)
    prep_post = collect_olds(post_clauses, env_old)
    prep_raise = {c: collect_olds(v, env_old) for c, v in raise_clauses.items()}
    call_args = []
    kw = {}
    for name, v in args.items():
        if name.startswith('ghost_'):
            continue
        if isinstance(v, Kw):
            kw = dict(v)
        else:
            call_args.append(v)
    failed = []
    try:
        result = fn(*call_args, **kw)
        outcome = 'normal'
        env2 = dict(env, result=result)
        for i, (src, node, olds) in enumerate(prep_post):
            ok, why = eval_prepared(node, env2, olds, snaps)
            if ok is False:
                failed.append(('post#%d' % i, src))
    except Exception as e:
        outcome = 'raise:' + type(e).__name__
        matched = None
        for c in raise_clauses:
            if exc_matches(e, c):
                matched = c
                break
        if matched is None:
            failed.append(('noraise', 'no %s escapes (%s)' % (type(e).__name__, e)))
        else:
            env2 = dict(env, exc=e)
            for i, (src, node, olds) in enumerate(prep_raise[matched]):
                ok, why = eval_prepared(node, env2, olds, snaps)
                if ok is False:
                    failed.append(('raises %s#%d' % (matched, i), src))
    return dict(valid=True, outcome=outcome, failed=failed)


def describe(v):
    if hasattr(v, '__dict__') and not isinstance(v, type):
        d = {}
        for k, x in vars(v).items():
            if callable(x) and not isinstance(x, type):
                d[k] = getattr(x, '__name__', repr(x))
            else:
                d[k] = repr(x)[:200]
        return {type(v).__name__: d}
    return repr(v)[:300]


def main():
    """python -m pyvc.twin <spec.json>: {function, contract{requires,ensures,raises}, generator, seed, budget, want}"""
    global MACROS
    MACROS = load_macros()
    spec = json.load(open(sys.argv[1]))
    from pyvc import twin_inputs
    gen = twin_inputs.GENERATORS.get(spec['function'])
    if gen is None:
        print(json.dumps(dict(error='no input generator for ' + spec['function'])))
        return
    rnd = random.Random(spec.get('seed', 0))
    fn = twin_inputs.resolve(spec['function'])
    want = spec.get('want')          # clause text to look for (None: any failure)
    valid = 0
    outcomes = {}
    found = None
    fails = []
    for case_no in range(spec.get('budget', 500)):
        try:
            args = gen(rnd)
        except Exception as e:
            continue
        desc = {k: describe(v) for k, v in args.items()}
        try:
            r = run_case(spec['contract'], fn, args)
        except Exception as e:
            print(json.dumps(dict(error='twin crashed: %r\n%s' % (e, traceback.format_exc()))))
            return
        if not r['valid']:
            continue
        valid += 1
        outcomes[r['outcome']] = outcomes.get(r['outcome'], 0) + 1
        for (label, src) in r['failed']:
            rec = dict(case=case_no, label=label, clause=src, args=desc, outcome=r['outcome'])
            fails.append(rec)
            if found is None and (want is None or want == src or want == label):
                found = rec
        if found is not None and want is not None:
            break
    print(json.dumps(dict(valid_cases=valid, outcomes=outcomes, found=found, failures=fails[:20],
                          n_failures=len(fails)), default=str))


if __name__ == '__main__':
    from pyvc import twin as _canonical     # avoid a second copy of this module (class identity of Kw)
    _canonical.main()
