"""./check C03 : translation validation driver (see pyvc/tv.py)"""
import sys, os, json, time, random, hashlib
from concurrent.futures import ProcessPoolExecutor

ROOT = os.path.dirname(os.path.dirname(os.path.abspath(__file__)))
sys.path.insert(0, ROOT)
from pyvc import tv, extract                  # noqa: E402
from pyvc.solve import solve_all             # noqa: E402


def _work(batch):
    return tv.check_classes(batch)


def main(argv):
    pid = 'C03'
    tier = 'quick'
    if '--tier' in argv:
        tier = argv[argv.index('--tier') + 1]
    seed = int(os.environ.get('VERIF_SEED', '0'))
    OUT = ROOT if os.environ.get('PYVC_REPO', '/repo') == '/repo' else os.environ.get('PYVC_OUT', '/tmp/pyvc_out')
    t0 = time.time()
    if tier == 'quick':
        seqs = tv.family(3, 24, seed, sample2=80)
    else:
        seqs = tv.family(4, 120, seed)
    decls = []
    for ci, seq in enumerate(seqs):
        for oi, opts in enumerate(tv.option_sets(tier != 'quick', seed, ci)):
            decls.append(dict(name='P%d_%d' % (ci, oi), body=tv.body_of(seq), options=opts))
    # batches for the worker processes
    nb = 64 if tier == 'quick' else 256
    batches = [decls[i::nb] for i in range(nb)]
    batches = [b for b in batches if b]
    results = []
    with ProcessPoolExecutor(max_workers=16) as ex:
        for r in ex.map(_work, batches):
            results += r
    t_gen = time.time() - t0
    items, meta = [], {}
    errors = []
    programs = 0
    quick_pairs = 0
    for r in results:
        if r.get('error'):
            errors.append(r)
            continue
        programs += 1
        for (label, text) in r['items']:
            items.append((label, text))
            meta[label] = r
    solved = solve_all(items, timeout_ms=10000 if tier == 'quick' else 60000, second=True)
    bad = [(k, v) for k, v in solved.items() if v[0] != 'unsat']
    n_obl, n_dis = len(solved), len(solved) - len(bad)
    violations, undecided = [], []
    crashes = [e for e in errors if e['error'].startswith('CRASH')]
    # baseline: the library sources that determine both the generated code and the generic loop.  An obligation that the
    # solvers leave `unknown` is a violation only if one of them changed since the baseline ("passed on the unchanged tree
    # and now fails"); on an unchanged tree it is UNDECIDED (exit 2).  `sat` is always a violation.
    from pyvc import extract as _ex
    import glob as _glob
    cur = {os.path.basename(f): hashlib.sha256(open(f, 'rb').read()).hexdigest()
           for f in sorted(_glob.glob(os.path.join(_ex.REPO, 'bisturi', '*.py')))}
    bpath = os.path.join(ROOT, 'baseline', pid + '.json')
    base = json.load(open(bpath)) if os.path.exists(bpath) else {}
    tree_changed = (not base) or any(cur.get(f) != h for f, h in base.get('files', {}).items()) or set(cur) != set(base.get('files', {}))
    for k, v in bad:
        r = meta[k]
        rec = dict(obligation=k, declaration=r['body'], options=r['options'], direction=r['direction'],
                   solver_result=v[0], solver_output=v[3][:3000], sources_changed_since_baseline=tree_changed)
        if v[0] == 'sat' or tree_changed:
            violations.append(rec)
        else:
            undecided.append(rec)
    if '--rebaseline' in argv and not bad:
        os.makedirs(os.path.join(ROOT, 'baseline'), exist_ok=True)
        json.dump(dict(files=cur), open(bpath, 'w'), indent=1, sort_keys=True)
    os.makedirs(os.path.join(OUT, 'replays', pid), exist_ok=True)
    for old_f in os.listdir(os.path.join(OUT, 'replays', pid)):       # replay files of earlier runs are not evidence of this one
        if old_f.startswith('violation_'):
            os.remove(os.path.join(OUT, 'replays', pid, old_f))
    lines = []
    # native differential replay (bounded): the real builder, generated vs generic class of the same declaration,
    # seeded random inputs; one search per distinct declaration
    import subprocess
    from pyvc import extract
    replayed = {}

    def native(v):
        key = json.dumps([v['declaration'], v['options']], sort_keys=True)
        if key not in replayed:
            try:
                env = dict(os.environ, PYTHONPATH=extract.REPO, PYTHONDONTWRITEBYTECODE='1')
                p = subprocess.run(['/venv/bin/python', os.path.join(ROOT, 'pyvc', 'tv_replay.py'),
                                    json.dumps(dict(body=v['declaration'], options=v['options'])), str(seed), '600'],
                                   capture_output=True, text=True, timeout=300, env=env)
                replayed[key] = json.loads(p.stdout.strip().splitlines()[-1])
            except Exception as e:
                replayed[key] = dict(reproduced=False, note='replay machinery error: %r' % (e,))
        return replayed[key]
    for i, v in enumerate(violations[:50]):
        rp = os.path.join(OUT, 'replays', pid, 'violation_%d.json' % i)
        rep = native(v) if len(replayed) < 12 or json.dumps([v['declaration'], v['options']], sort_keys=True) in replayed else dict(reproduced=False)
        if not rep.get('reproduced'):
            rep = dict(rep, reproduced=False, note='generated and generic code are not proved equivalent for this declaration (pair of paths); '
                       'the seeded native search found no input on which the two classes disagree; declaration and options are in this file')
        v['replay'] = rep
        json.dump(dict(property=pid, **v), open(rp, 'w'), indent=1)
        tail = '' if rep.get('reproduced') else ' no-failing-input-found'
        lines.append('VIOLATION property=%s replay=%s obligation=%s%s' % (pid, rp, v['obligation'].replace(' ', '_'), tail))
    # bounded run-time contracts of the class-builder steps (the code generator is handed the whole field table, ...)
    builder_probe = None
    try:
        pb = subprocess.run(['/venv/bin/python', os.path.join(ROOT, 'pyvc', 'probe_builder.py'), extract.REPO, str(seed),
                             '60' if tier == 'quick' else '600'], capture_output=True, text=True, timeout=1800)
        pbd = json.loads(pb.stdout.strip().splitlines()[-1])
    except Exception as e:
        pbd = dict(facts={}, scenarios=[], failures=[dict(part='A', error='probe did not run: %r' % (e,))])
    builder_probe = dict(probe='probe_builder', facts=pbd.get('facts', {}), scenarios=pbd.get('scenarios', []))
    for f in pbd.get('failures', []):
        if f.get('part') == 'A':
            errors.append(dict(cls='probe_builder', body=[], error='builder probe undecided: %r' % (f,)))
            continue
        i = len(violations)
        rp = os.path.join(OUT, 'replays', pid, 'violation_%d.json' % i)
        oname = 'packet_builder:PacketClassBuilder.%s/post(bounded)/%s' % (f.get('step'), f.get('clause', '?').replace(' ', '_')[:120])
        v = dict(obligation=oname, kind='twin', clause=f.get('clause'), replay=dict(reproduced=True, failing_input=f,
                 note='postcondition of a class-builder step evaluated to False while the real metaclass built this declaration'))
        violations.append(v)
        json.dump(dict(property=pid, **v), open(rp, 'w'), indent=1, default=str)
        lines.append('VIOLATION property=%s replay=%s obligation=%s' % (pid, rp, oname))
    samples = [dict(declaration=r['body'], options=r['options'], direction=r['direction'], note=r.get('note'),
                    pairs_to_solver=len(r.get('items', []))) for r in results[:6]]
    ev = dict(property_id=pid, tier=tier, seed=seed, level='translation_validation',
              coverage=dict(programs=programs, disagreements_checked=n_obl, samples=samples,
                            obligations=n_obl, discharged=n_dis,
                            declarations=len(decls), directions=2,
                            untranslated=[(e['cls'], e['body'], e['error'][:200]) for e in errors][:20],
                            rule='declarations: all sequences of length <= 2 over the field alphabet %r plus seeded random longer ones; '
                                 'options: the default plus seeded other combinations (thorough: all 16); per declaration and direction every pair of '
                                 '(generic path, generated path) is an equivalence obligation over unbounded inputs' % (tv.ALPHABET,),
                            checker_cmd='./check C03 --tier %s' % tier,
                            trusted_base=['pyvc symbolic executor', 'struct multi-code format semantics (assumed)',
                                          'Fragments == sparse byte array of its contract (C11)',
                                          'non-fixed table entries are deterministic functions of their inputs',
                                          'z3 / cvc5'],
                            native_probe_bounded=builder_probe,
                            gen_s=round(t_gen, 1)),
              assumptions=['declarations are enumerated (bounded over programs), inputs and values unbounded',
                           'fixed Data values have exactly the declared length (struct pads/truncates, the generic loop does not)',
                           'nothing is stored at or after the cursor when pack_impl starts (collisions are C11/C12)',
                           'on failure the exception class, the phase flag and the stack of (offset, name, class) entries are compared (the newest entry may name the run of fixed fields containing the failing field, with the offset where the run begins); the message text is not compared'],
              wall_s=round(time.time() - t0, 1), violations=len(violations))
    ev['coverage']['undecided'] = [u['obligation'] for u in undecided]
    os.makedirs(os.path.join(OUT, 'evidence'), exist_ok=True)
    json.dump(ev, open(os.path.join(OUT, 'evidence', pid + '.json'), 'w'), indent=1)
    if crashes:
        for e in crashes[:3]:
            print('CRASH declaration=%s %s' % (e['body'], e['error']))
        return 3
    if violations:
        for l in lines:
            print(l)
        return 1
    if errors or undecided:
        for e in errors[:5]:
            print('UNDECIDED property=C03 declaration=%s %s' % (e['body'], e['error'][:200]))
        for u in undecided[:20]:
            print('UNDECIDED property=C03 obligation=%s solver=%s (library sources unchanged since the baseline)' % (u['obligation'].replace(' ', '_'), u['solver_result']))
        return 2
    print('OK property=C03 programs=%d equivalence-obligations=%d discharged=%d wall=%.1fs' % (programs, n_obl, n_dis, time.time() - t0))
    return 0


if __name__ == '__main__':
    import traceback
    try:
        sys.exit(main(sys.argv[1:]))
    except SystemExit:
        raise
    except Exception:
        traceback.print_exc()
        sys.exit(3)
