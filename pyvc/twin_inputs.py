"""Concrete input generators for the run-time twin (one per function under contract).
Each returns an ordered dict parameter-name -> real object, drawn from a seeded Random."""
import importlib, random
from .twin import Kw


class Obj:
    """stand-in for a packet instance (slots are plain attributes)"""
    def __repr__(self):
        return 'Obj(%r)' % (vars(self),)


def resolve(qualname):
    qualname = qualname.split('#')[-1]          # 'Xtwin#module:function' names a twin-only contract of module:function
    mod, path = qualname.split(':')
    m = importlib.import_module('bisturi.' + mod)
    o = m
    for part in path.split('.'):
        o = getattr(o, part)
    # unwrap @exec_once
    if getattr(o, '__name__', '') == 'wrapper' and o.__closure__:
        for c in o.__closure__:
            if callable(c.cell_contents):
                return c.cell_contents
    return o


def rbytes(r, n):
    return bytes(r.randrange(256) for _ in range(n))


def rint_interesting(r, n=4):
    lim = 2 ** (8 * n)
    return r.choice([0, 1, -1, lim - 1, lim, lim // 2, lim // 2 - 1, -lim // 2, -lim // 2 - 1,
                     r.randrange(-lim, 2 * lim), r.randrange(0, 300)])


def mk_fragments(r, empty_prob=0.4):
    from bisturi.fragments import Fragments
    f = Fragments()
    if r.random() > empty_prob:
        for _ in range(r.randrange(1, 4)):
            try:
                f.insert(r.randrange(0, 12), rbytes(r, r.randrange(0, 4)))
            except Exception:
                pass
    f.current_offset = r.randrange(0, 14)
    return f


def mk_kw(r):
    return Kw({'innermost-pkt-pos': r.randrange(0, 6)})


def mk_int(r, compiled=True, prim=None):
    from bisturi.field import Int
    if prim is True:
        n = r.choice([1, 2, 4, 8])
    elif prim is False:
        n = r.choice([3, 5, 6, 7, 9, 16])
    else:
        n = r.choice([1, 2, 3, 4, 5, 8, 16])
    f = Int(n, signed=r.random() < 0.5, endianness=r.choice([None, 'big', 'little', 'network', 'local']))
    f.field_name = 'x'
    if compiled:
        conf = r.choice([{}, {'endianness': 'little'}, {'endianness': 'network'}, {'endianness': 'big'}])
        f._compile(position=0, fields=[], bisturi_conf=conf)
    return f


def g_int_compile(r):
    f = mk_int(r, compiled=False)
    conf = r.choice([{}, {'endianness': 'little'}, {'endianness': 'network'}, {'endianness': 'local'}])
    return dict(self=f, position=0, fields=[], bisturi_conf=conf)


def g_int_unpack(prim):
    def g(r):
        f = mk_int(r, prim=prim)
        off = r.randrange(0, 4)
        raw = rbytes(r, r.randrange(0, off + f.byte_count + 3))
        return dict(self=f, pkt=Obj(), raw=raw, offset=off, k=mk_kw(r))
    return g


def g_int_pack(prim):
    def g(r):
        f = mk_int(r, prim=prim)
        p = Obj()
        p.x = r.choice([rint_interesting(r, f.byte_count), rint_interesting(r, f.byte_count), None, b'ab', True])
        return dict(self=f, pkt=p, fragments=mk_fragments(r), k=mk_kw(r))
    return g


def g_frag_insert(r):
    f = mk_fragments(r, 0.2)
    return dict(self=f, position=r.randrange(0, 14), string=rbytes(r, r.randrange(0, 4)))


def g_frag_append(r):
    f = mk_fragments(r, 0.2)
    return dict(self=f, string=rbytes(r, r.randrange(0, 4)))


def g_frag_tobytes(r):
    return dict(self=mk_fragments(r, 0.1))


def mk_move(r):
    from bisturi.structural_fields import Move
    from bisturi.field import Int
    kind = r.choice(['int', 'int', 'field', 'callable'])
    align = r.random() < 0.5
    val = r.randrange(1, 9) if align else r.randrange(0, 9)
    p = Obj()
    if kind == 'int':
        arg = val
    elif kind == 'field':
        arg = Int(1)
        arg.field_name = 't'
        p.t = val
    else:
        arg = (lambda v: (lambda **k: v))(val)
    m = Move(arg, r.choice(['begins', 'current-offset', 'innermost-pkt']), align)
    m.field_name = '_shift_to_x'
    return m, p


def g_move_unpack(r):
    m, p = mk_move(r)
    off = r.randrange(0, 12)
    return dict(self=m, pkt=p, raw=rbytes(r, r.randrange(0, 16)), offset=off, k=mk_kw(r))


def g_move_pack(r):
    m, p = mk_move(r)
    return dict(self=m, pkt=p, fragments=mk_fragments(r), k=mk_kw(r))


def mk_data(r, mode):
    import re
    from bisturi.field import Data, Int
    conf = r.choice([{}, {}, {'search_buffer_length': 0}, {'search_buffer_length': r.randrange(1, 6)}])
    p = Obj()
    if mode == 'fixed':
        f = Data(r.randrange(0, 5))
    elif mode == 'field':
        n = Int(1)
        n.field_name = 'n'
        p.n = r.choice([r.randrange(0, 6), r.randrange(-2, 8), None])
        f = Data(n)
    elif mode == 'callable':
        v = r.choice([r.randrange(0, 6), r.randrange(-3, 8)])
        f = Data((lambda v: (lambda **k: v))(v))
    elif mode == 'marker':
        inc = r.random() < 0.4
        f = Data(until_marker=r.choice([b'\n', b'ab', b'aa', b'\r\n']), include_delimiter=inc,
                 consume_delimiter=True if inc else r.random() < 0.7)
    else:
        inc = r.random() < 0.4
        f = Data(until_marker=re.compile(r.choice([b'$', b'\r?\n', b'a+', b'[0-9]'])), include_delimiter=inc,
                 consume_delimiter=True if inc else r.random() < 0.7)
    f.field_name = 'x'
    f._compile(position=0, fields=[], bisturi_conf=conf)
    return f, p


def rtext(r, n):
    return bytes(r.choice(b'ab\n\r1x') for _ in range(n))


def g_data_unpack(mode):
    def g(r):
        f, p = mk_data(r, mode)
        off = r.randrange(0, 4)
        raw = rtext(r, r.randrange(0, 10))
        return dict(self=f, pkt=p, raw=raw, offset=off, k=mk_kw(r))
    return g


def g_data_pack(r):
    f, p = mk_data(r, r.choice(['fixed', 'marker', 'regex']))
    p.x = r.choice([rtext(r, r.randrange(0, 4)), rtext(r, 2), None, 7])
    return dict(self=f, pkt=p, fragments=mk_fragments(r), k=mk_kw(r))


def g_deferred_expr(r):
    """a random expression tree over two integer fields and a bytes field, built twice from the same
    recipe: over Field objects (deferred) and over the packet's values (eager python)"""
    import operator
    from bisturi.field import Int, Data
    x, y, d = Int(1), Int(2), Data(2)
    x.field_name, y.field_name, d.field_name = 'x', 'y', 'd'
    p = Obj()
    p.x, p.y, p.d = r.choice([0, 1, 2, 3, 7, 255]), r.choice([0, 1, 2, 5, 300]), bytes(r.randrange(256) for _ in range(r.randrange(0, 4)))
    binops = [operator.add, operator.sub, operator.mul, operator.floordiv, operator.mod, operator.pow, operator.le, operator.lt,
              operator.ge, operator.gt, operator.eq, operator.ne, operator.and_, operator.or_, operator.xor, operator.rshift,
              operator.lshift, operator.truediv]

    def recipe(depth):
        k = r.randrange(0, 12 if depth > 0 else 3)
        if k == 0:
            return lambda X, Y, D: X
        if k == 1:
            return lambda X, Y, D: Y
        if k == 2:
            c = r.choice([0, 1, 2, 3, 8, -1])
            return lambda X, Y, D: c
        if k in (3, 4, 5):
            op = r.choice(binops)
            a, b = recipe(depth - 1), recipe(depth - 1)
            return lambda X, Y, D: op(a(X, Y, D), b(X, Y, D))
        if k == 6:
            a = recipe(depth - 1)
            u = r.choice([operator.neg, operator.inv])
            return lambda X, Y, D: u(a(X, Y, D))
        if k == 7:
            a = recipe(depth - 1)
            return lambda X, Y, D: D[a(X, Y, D)]
        if k == 9:
            # a constant on either side of a NON-commutative use of a commutative operator (bytes concatenation,
            # repetition): the reflected methods must put the operands back in source order
            c = r.choice([b'>', b'', b'ab'])
            side = r.randrange(3)
            hi = r.choice([1, 2])
            if side == 0:
                return lambda X, Y, D: c + D[0:hi]
            if side == 1:
                return lambda X, Y, D: D[0:hi] + c
            n = r.choice([0, 1, 2])
            return lambda X, Y, D: n * D[0:hi]
        if k == 10:
            # the same unary operator twice in a row (must be applied twice: -(-seq) raises, ~~x is x)
            a = recipe(depth - 1)
            u = r.choice([operator.neg, operator.inv])
            return lambda X, Y, D: u(u(a(X, Y, D)))
        if k == 11:
            a = recipe(depth - 1)
            u = r.choice([operator.neg, operator.inv])
            return lambda X, Y, D: u(u(D[0:1] if r.random() < 0 else a(X, Y, D)))
        # the selector's condition is rooted in a field, so the selection itself is deferred
        fld = r.randrange(2)
        cmpc = r.choice([0, 1, 2, 3])
        a = (lambda X, Y, D: (X if fld == 0 else Y) > cmpc)
        b, c = recipe(depth - 1), recipe(depth - 1)
        form = r.randrange(5)

        def sel(X, Y, D):
            cond, t, f = a(X, Y, D), b(X, Y, D), c(X, Y, D)
            from bisturi.field import Field
            from bisturi.deferred import UnaryExpr, BinaryExpr, NaryExpr
            if isinstance(cond, (Field, UnaryExpr, BinaryExpr, NaryExpr)):
                if form == 0:
                    return cond.if_true_then_else([t, f])
                if form == 1:
                    return cond.if_true_then_else(t, f)
                if form == 2:
                    return cond.chooses({True: t, False: f})
                if form == 3:   # selection by symbolic name: dictionary form with str keys
                    return cond.chooses({True: 'yes', False: 'no'}).chooses({'yes': t, 'no': f})
                # keyword form: the names are matched as ascii bytes
                return cond.chooses({True: b'yes', False: b'no'}).chooses(yes=t, no=f)
            if form == 3:
                return {'yes': t, 'no': f}[{True: 'yes', False: 'no'}[bool(cond)]]
            if form == 4:
                return {b'yes': t, b'no': f}[{True: b'yes', False: b'no'}[bool(cond)]]
            return t if bool(cond) else f
        return sel
    rec = recipe(3)
    try:
        expr = rec(x, y, d)
    except Exception:
        raise
    try:
        expected = ('ok', rec(p.x, p.y, p.d))
    except Exception as e:
        expected = ('raise', type(e).__name__)
    return dict(root_expr=expr, ghost_pkt=p, ghost_expected=expected)


def g_raw_condition(r):
    """a bare field used as a when / until condition: the callable must answer the truth value of the field's
    CURRENT value in the packet (None, 0, b'' and [] are false; everything else is true), or raise what bool() raises"""
    from bisturi.field import Int, Data
    p = Obj()
    kind = r.randrange(4)
    if kind == 0:
        f = Int(r.choice([1, 2, 3]))
        v = r.choice([0, 1, 5, 255, -1])
    elif kind == 1:
        f = Data(r.choice([1, 2]))
        v = r.choice([b'', b'x', b'\x00', b'ab'])
    elif kind == 2:
        f = Int(1).when(lambda **k: True)         # an optional gate: present or None
        v = r.choice([None, 0, 7])
    else:
        f = Int(1).repeated(2)
        v = r.choice([[], [0], [1, 2]])
    f.field_name = 'g'
    p.g = v
    return dict(raw_condition=f, ghost_pkt=p, ghost_expected=('ok', bool(v)))


GENERATORS = {
    'C08twin#structural_fields:normalize_raw_condition_into_a_callable': g_raw_condition,
    'deferred:compile_expr_into_callable': g_deferred_expr,
    'field:Data._unpack_fixed_size': g_data_unpack('fixed'),
    'field:Data._unpack_variable_size_field': g_data_unpack('field'),
    'field:Data._unpack_variable_size_callable': g_data_unpack('callable'),
    'field:Data._unpack_with_string_marker': g_data_unpack('marker'),
    'field:Data._unpack_with_regexp_marker': g_data_unpack('regex'),
    'field:Data.pack': g_data_pack,
    'field:Int._compile': g_int_compile,
    'field:Int._unpack_fixed_and_primitive_size': g_int_unpack(True),
    'field:Int._unpack_fixed_size': g_int_unpack(False),
    'field:Int._pack_fixed_and_primitive_size': g_int_pack(True),
    'field:Int._pack_fixed_size': g_int_pack(False),
    'fragments:Fragments.insert': g_frag_insert,
    'fragments:Fragments.append': g_frag_append,
    'fragments:Fragments.tobytes': g_frag_tobytes,
    'structural_fields:Move.unpack': g_move_unpack,
    'structural_fields:Move.pack': g_move_pack,
}
