"""Run the REAL class builder of /repo on a list of declarations and dump, per class, the generated
module text and the compiled field table.  Runs as a separate process (PYTHONPATH=<repo>) inside a
scratch directory: the code cache (__pkts__) is written next to the defining module.

input (argv[1]): JSON [{"name": "P0", "body": ["a = Int(1)", ...], "options": {...}}, ...]
output (stdout): JSON {name: {"source": <generated module text or null>, "table": [...], "sync_pack": n, "sync_unpack": n}}
"""
import json, os, sys, importlib

HEADER = """from bisturi.packet import Packet
from bisturi.field import Int, Data, Bits, Ref, Em
from bisturi.descriptor import Auto, AutoLength

class Inner(Packet):
    __bisturi__ = {'generate_for_pack': False, 'generate_for_unpack': False}
    p = Int(1)
    q = Int(2)


class Both(AutoLength):
    # a descriptor with BOTH sync hooks (the built-in ones only have sync_before_pack)
    def sync_after_unpack(self, instance):
        setattr(instance, self.iam_enabled_attr_name, True)

"""


def describe(field):
    d = dict(cls=type(field).__name__, is_fixed=bool(field.is_fixed), struct_code=field.struct_code,
             is_bigendian=bool(field.is_bigendian), field_name=getattr(field, 'field_name', None))
    if type(field).__name__ == 'Int':
        d.update(byte_count=field.byte_count, is_signed=bool(field.is_signed))
        so = getattr(field, 'struct_obj', None)
        d.update(struct_format=(so.format if so is not None else None), struct_size=(so.size if so is not None else None),
                 pack_name=getattr(field.pack, '__name__', None), unpack_name=getattr(field.unpack, '__name__', None))
    if type(field).__name__ == 'Data':
        d.update(byte_count=field.byte_count if isinstance(field.byte_count, int) else None)
    return d


def main():
    decls = json.load(open(sys.argv[1]))
    src = [HEADER]
    for d in decls:
        src.append('class %s(Packet):' % d['name'])
        src.append('    __bisturi__ = %r' % (d['options'],))
        for line in d['body']:
            src.append('    ' + line)
        src.append('')
    with open('tvdecls.py', 'w') as f:
        f.write('\n'.join(src))
    sys.path.insert(0, os.getcwd())
    mod = importlib.import_module('tvdecls')
    out = {}
    for d in decls:
        cls = getattr(mod, d['name'])
        path = os.path.join('__pkts__', 'tvdecls_%s.py' % d['name'])
        source = open(path).read() if os.path.exists(path) else None
        out[d['name']] = dict(
            source=source,
            table=[dict(name=n, **describe(f)) for n, f, _, _ in cls.get_fields()],
            sync_pack=len(cls.get_sync_before_pack_methods()),
            sync_unpack=len(cls.get_sync_after_unpack_methods()),
            uses_generated_pack=cls.pack_impl.__module__ != 'bisturi.packet',
            uses_generated_unpack=cls.unpack_impl.__module__ != 'bisturi.packet')
    print(json.dumps(out))


if __name__ == '__main__':
    main()
