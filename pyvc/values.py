"""Symbolic values manipulated by the executor."""
import z3
from . import theory as T


class V:
    kind = '?'

    def __repr__(self):
        return '<%s %s>' % (self.kind, getattr(self, 'z', ''))


class VInt(V):
    kind = 'int'

    def __init__(self, z):
        self.z = z3.IntVal(z) if isinstance(z, int) else z


class VBool(V):
    kind = 'bool'

    def __init__(self, z):
        self.z = z3.BoolVal(z) if isinstance(z, bool) else z


class VBytes(V):
    kind = 'bytes'

    def __init__(self, z):
        self.z = z


class VStr(V):
    kind = 'str'

    def __init__(self, z):
        self.py = z if isinstance(z, str) else None
        self.z = z3.StringVal(z) if isinstance(z, str) else z


class VNone(V):
    kind = 'none'


class VRef(V):
    """Reference to a heap object whose (schema) class is statically known."""
    kind = 'ref'

    def __init__(self, z, cls):
        self.z = z
        self.cls = cls


class VList(V):
    """Reference to a heap list (elements are Val)."""
    kind = 'list'

    def __init__(self, z):
        self.z = z


class VTuple(V):
    kind = 'tuple'

    def __init__(self, items):
        self.items = list(items)


class VDyn(V):
    """Dynamically typed value (sort Val)."""
    kind = 'dyn'

    def __init__(self, z):
        self.z = z


class VKw(V):
    kind = 'kw'

    def __init__(self, z):
        self.z = z


class VStruct(V):
    kind = 'struct'

    def __init__(self, z):
        self.z = z


class VRx(V):
    kind = 'rx'

    def __init__(self, z):
        self.z = z


class VFunc(V):
    """Statically resolved callable: ('contract', qualname, self_value) |
    ('builtin', name) | ('role', name, payload) | ('class', name) | ('bound', obj, attr)."""
    kind = 'func'

    def __init__(self, tag, *payload):
        self.tag = tag
        self.payload = payload

    def __repr__(self):
        return '<func %s %r>' % (self.tag, self.payload[:1])


class VDictLit(V):
    """A literal dict with constant keys (only subscripting is supported)."""
    kind = 'dictlit'

    def __init__(self, items):
        self.items = items  # list of (python const, V)


class VHeapDict(V):
    """dict-typed attribute of a heap object: (owner ref, heap key prefix, key kind, value kind)."""
    kind = 'heapdict'

    def __init__(self, owner, key, kkind, vkind):
        self.owner = owner
        self.key = key
        self.kkind = kkind
        self.vkind = vkind


class VSeqAbs(V):
    """Abstract immutable sequence given by (length z3 Int, element function idx->V)."""
    kind = 'seqabs'

    def __init__(self, n, elem, tag=''):
        self.n = n
        self.elem = elem
        self.tag = tag


class VClassSym(V):
    """a class object known only symbolically (the `cls` of a classmethod / type(obj))"""
    kind = 'clssym'

    def __init__(self, z, base='Packet'):
        self.z = z          # z3 Int class id
        self.base = base    # schema class all instances belong to


class VConf(V):
    """read-only str-keyed mapping (bisturi_conf, defaults): has/val arrays"""
    kind = 'conf'

    def __init__(self, z):
        self.z = z      # z3 datatype Conf(has, val)


class VMatch(V):
    """re match object (or None when found is false)."""
    kind = 'match'

    def __init__(self, rx, buf):
        self.rx = rx
        self.buf = buf


class VExc(V):
    kind = 'exc'

    def __init__(self, cls, ref=None, msg=None, eid=None):
        self.cls = cls      # concrete class name or 'Exception*'
        self.ref = ref      # z3 Int ref of a PacketError heap object (if any)
        self.msg = msg
        self.eid = eid


def to_val(v):
    """Wrap a typed symbolic value into sort Val."""
    if isinstance(v, VDyn):
        return v.z
    if isinstance(v, VInt):
        return T.Val.VI(v.z)
    if isinstance(v, VBool):
        return T.Val.VB(v.z)
    if isinstance(v, VNone):
        return T.Val.VN
    if isinstance(v, VBytes):
        return T.Val.VBy(v.z)
    if isinstance(v, VStr):
        return T.Val.VS(v.z)
    if isinstance(v, VRef):
        return T.Val.VR(v.z)
    if isinstance(v, VList):
        return T.Val.VL(v.z)
    if isinstance(v, VFunc) and v.tag == 'role':
        return T.Val.VF(v.payload[1])
    if isinstance(v, VFunc) and v.tag == 'lambda':
        # a closure created by the code: a function object of its own (identity: one fresh id per creation site and path)
        import z3
        if not hasattr(v, '_fid'):
            _lam_counter[0] += 1
            v._fid = z3.Int('lambda_fn!%d' % _lam_counter[0])
        return T.Val.VF(v._fid)
    if isinstance(v, VTuple):
        return tuple_val(v)
    if isinstance(v, VClassSym):
        return T.Val.VO(v.z)
    raise Untranslated('cannot store value of kind %s into a dynamic slot' % v.kind)


class Untranslated(Exception):
    pass


_lam_counter = [0]


_tuple_fn = {}


def tuple_val(v):
    """A tuple stored into a dynamic slot: VO(tupN(items...)) with an injective constructor per arity."""
    import z3
    n = len(v.items)
    if n not in _tuple_fn:
        _tuple_fn[n] = (z3.Function('tup%d' % n, *([T.Val] * n + [T.I])),
                        [z3.Function('tup%d_%d' % (n, i), T.I, T.Val) for i in range(n)])
    f, projs = _tuple_fn[n]
    return T.Val.VO(f(*[to_val(x) for x in v.items]))


def tuple_axioms():
    import z3
    out = []
    for n, (f, projs) in _tuple_fn.items():
        xs = [z3.Const('x%d' % i, T.Val) for i in range(n)]
        for i in range(n):
            out.append(z3.ForAll(xs, projs[i](f(*xs)) == xs[i], patterns=[f(*xs)]))
    return out


def tuple_parts(z, n):
    """(is z an n-tuple value?, projections) for a term of sort Val"""
    import z3
    if n not in _tuple_fn:
        _tuple_fn[n] = (z3.Function('tup%d' % n, *([T.Val] * n + [T.I])),
                        [z3.Function('tup%d_%d' % (n, i), T.I, T.Val) for i in range(n)])
    f, projs = _tuple_fn[n]
    o = T.Val.oval(z)
    items = [p(o) for p in projs]
    return z3.And(T.Val.is_VO(z), o == f(*items)), items
