"""C03: translation validation of the generated pack_impl / unpack_impl.

For each declaration D of a family and each option combination the REAL builder is run; the
generated function (real, loop-free code) and the generic field loop (real body of
Packet.unpack_impl / pack_impl, unrolled over D's concrete field table) are both executed
symbolically from the same symbolic input; every pair of paths must agree:
  normal/normal  - same end offset and same packet heap (unpack); same cursor and same byte view (pack)
  raise/raise    - both PacketError with the same phase flag and the same stack of (offset, name, class) entries,
                   except that the newest entry may name the run of fixed fields "between 'A' and 'B'" that contains
                   the failing field, with the offset where A begins (as the property allows)
  normal/raise   - infeasible.
Table entries that are not modelled concretely (variable fields, Bits, Int of odd width, positioned
fields, ...) are deterministic uninterpreted state transformers (Engine.call_detrole), so the proof is
independent of their kind.  Inputs and packet values are unbounded; declarations are enumerated.
"""
import ast, copy, itertools, json, os, random, subprocess, sys, tempfile, shutil, time, hashlib
import z3

ROOT = os.path.dirname(os.path.dirname(os.path.abspath(__file__)))
sys.path.insert(0, ROOT)

from pyvc import theory as T                      # noqa: E402
from pyvc.values import *                         # noqa: E402
from pyvc.symex import State, Ctx, Contract       # noqa: E402
from pyvc.run import make_engine                  # noqa: E402
from pyvc.solve import to_smt2, solve_all         # noqa: E402
from pyvc import extract                          # noqa: E402

ALPHABET = [
    'Int(1)', 'Int(2)', 'Int(4)', 'Int(8)', 'Int(2, signed=True)', 'Int(1, signed=True)',
    'Int(4, endianness="little")', 'Int(2, endianness="little", signed=True)', 'Int(2, endianness="local")',
    'Int(3)', 'Data(2)', 'Data(1)', 'Data(until_marker=b"\\n")', 'Ref(Inner)',
    'Int(1).repeated(2)', 'Int(2).at(6)', 'BITS', 'DESC', 'DESC2',
]


def family(max_len, sample, seed, sample2=None):
    """all declarations of length 1, all (or `sample2`) of length 2, plus `sample` seeded random longer ones"""
    out = list(itertools.product(range(len(ALPHABET)), repeat=1))
    two = list(itertools.product(range(len(ALPHABET)), repeat=2))
    out += two if sample2 is None else random.Random(seed + 2).sample(two, sample2)
    if max_len >= 3:
        full = list(itertools.product(range(len(ALPHABET)), repeat=3))
        if sample is None:
            out += full
        else:
            out += random.Random(seed).sample(full, min(sample, len(full)))
    if max_len >= 4 and sample is not None:
        r = random.Random(seed + 1)
        out += [tuple(r.randrange(len(ALPHABET)) for _ in range(4)) for _ in range(sample)]
    return out


def body_of(seq):
    lines, k = [], 0
    for i, a in enumerate(seq):
        f = ALPHABET[a]
        if f == 'BITS':
            lines.append('b%da = Bits(3)' % i)
            lines.append('b%db = Bits(5)' % i)
        elif f == 'DESC2':
            # a described field whose descriptor has both hooks (sync_before_pack and sync_after_unpack)
            lines.append('m%d = Int(1).describe(Both("e%d"))' % (i, i))
            lines.append('e%d = Data(m%d)' % (i, i))
        elif f == 'DESC':
            # a described field (descriptor sync hooks run before pack / after unpack) and the byte string it measures
            lines.append('n%d = Int(1).describe(AutoLength("d%d"))' % (i, i))
            lines.append('d%d = Data(n%d)' % (i, i))
        else:
            lines.append('f%d = %s' % (i, f))
    return lines


def option_sets(all16, seed, cls_index):
    keys = ['generate_for_pack', 'generate_for_unpack', 'vectorize', 'annotate']
    combos = [dict(zip(keys, v)) for v in itertools.product([True, False], repeat=4)]
    if all16:
        return combos
    r = random.Random(seed * 7919 + cls_index)
    must = [dict(generate_for_pack=True, generate_for_unpack=True, vectorize=True, annotate=True)]
    rest = [c for c in combos if c not in must and (c['generate_for_pack'] or c['generate_for_unpack'])]
    return must + r.sample(rest, 1)


def build_classes(decls):
    d = tempfile.mkdtemp(prefix='pyvc_tv_')
    try:
        with open(os.path.join(d, 'decls.json'), 'w') as f:
            json.dump(decls, f)
        env = dict(os.environ)
        env['PYTHONPATH'] = extract.REPO + os.pathsep + ROOT
        env['PYTHONDONTWRITEBYTECODE'] = '1'
        p = subprocess.run([sys.executable, os.path.join(ROOT, 'pyvc', 'tv_build.py'), 'decls.json'], cwd=d, env=env,
                           capture_output=True, text=True, timeout=600)
        if p.returncode != 0:
            raise RuntimeError('class builder failed: ' + p.stderr[-2000:])
        return json.loads(p.stdout.strip().splitlines()[-1])
    finally:
        shutil.rmtree(d, ignore_errors=True)


TV_FRAGMENTS_SCHEMA = dict(module='fragments', bases=[], attrs={
    'current_offset': 'int', 'occ': 'arrbool', 'byt': 'arrint', 'extent': 'int', 'fill': 'bytes'})
TV_INLINE = {'field:Int._unpack_fixed_and_primitive_size', 'field:Int._pack_fixed_and_primitive_size',
             'field:Data._unpack_fixed_size', 'field:Data.pack'}


def tv_engine():
    from contracts import schema
    from pyvc.check import load_contracts
    import pyvc.execute as X
    classes = copy.deepcopy(schema.CLASSES)
    classes['Fragments'] = TV_FRAGMENTS_SCHEMA
    eng = make_engine(classes, load_contracts())
    eng.tv_mode = True
    eng.tv_inline = TV_INLINE
    eng.tv_sources = {}
    eng.tv_tables = {}
    X.DET_COMPS[:] = ['slots', 'has', 'llen', 'lat', 'next', 'Fragments.current_offset', 'Fragments.occ',
                      'Fragments.byt', 'Fragments.extent']
    return eng


def int_is_inlined(e):
    """an Int entry whose real pack/unpack are the primitive-size pair with an explicit-endianness struct format"""
    return (e['cls'] == 'Int' and bool(e['struct_code']) and e.get('struct_format') and e['struct_format'][0] in '<>!'
            and e.get('pack_name') == '_pack_fixed_and_primitive_size' and e.get('unpack_name') == '_unpack_fixed_and_primitive_size')


def concrete_table(eng, st, info):
    """the field table of the class as concrete objects; returns VTuple of (name, field, pack, unpack)"""
    rows = []
    for i, e in enumerate(info['table']):
        r = z3.IntVal(1000 + i)
        name = VStr(e['name'])
        if int_is_inlined(e):
            f = VRef(r, 'Int')
            # the struct object the generic loop really uses: its own format string as compiled by Int._compile
            fmt = e['struct_format']
            so = T.SF.mksf(fmt[0] == '>' or (fmt[0] == '!' ), e['struct_size'], fmt[-1].islower())
            for a, v in (('byte_count', z3.IntVal(e['byte_count'])), ('is_signed', z3.BoolVal(e['is_signed'])),
                         ('is_bigendian', z3.BoolVal(e['is_bigendian'])),
                         ('struct_obj', so),
                         ('field_name', z3.StringVal(e['field_name']))):
                owner, kind = eng.attr_kind('Int', a)
                key = '%s.%s' % (owner, a)
                st.heap[key] = z3.Store(st.heap[key], r, v)
            rows.append(VTuple([name, f, VFunc('contract', 'field:Int._pack_fixed_and_primitive_size', f),
                                VFunc('contract', 'field:Int._unpack_fixed_and_primitive_size', f)]))
        elif e['cls'] == 'Data' and e['is_fixed'] and e['byte_count'] is not None:
            f = VRef(r, 'Data')
            for key, v in (('Data.byte_count', T.Val.VI(e['byte_count'])), ('Field.field_name', z3.StringVal(e['field_name'])),
                           ('Data.delimiter_to_be_included', T.bempty)):
                st.heap[key] = z3.Store(st.heap[key], r, v)
            rows.append(VTuple([name, f, VFunc('contract', 'field:Data.pack', f),
                                VFunc('contract', 'field:Data._unpack_fixed_size', f)]))
        else:
            f = VRef(r, 'Field')
            rows.append(VTuple([name, f, VFunc('detrole', 'FIELD.pack', r), VFunc('detrole', 'FIELD.unpack', r)]))
    return VTuple(rows)


def run_body(eng, c, node, st, env):
    """execute a function body from state st; returns [(kind, state, payload)]"""
    out = []
    eng.cur = c
    eng.fn_env = env
    eng.fn_pre = st.fork()
    eng.loop_frame_contract = c
    eng.loop_ordinals, eng.listcomp_ordinals = {}, {}
    ifc = 0
    for sub in ast.walk(node):
        if isinstance(sub, ast.If):
            sub.lineno_rel = ifc
            ifc += 1
    st = st.fork()
    st.loc = dict(env)
    st.ctx = Ctx(lambda s, v: out.append(('normal', s, v)), lambda s, e: out.append(('raise', s, e)))
    from pyvc.extract import strip_docstring
    eng.exec_block(st, strip_docstring(node.body), lambda s: out.append(('normal', s, VNone())))
    return out


def validate(eng, name, info, direction):
    """returns (obligations [(label, hyps, goal)], note)"""
    from pyvc.extract import find_function
    if info['source'] is None:
        return [], 'no generated module'
    tree = ast.parse(info['source'])
    fname = direction + '_impl'
    gen_node = next((n for n in tree.body if isinstance(n, ast.FunctionDef) and n.name == fname), None)
    if gen_node is None:
        return [], 'generation switched off for ' + direction
    eng.obligations, eng.extra_hyps, eng.ext_pairs = [], [], []
    eng._facts_added = set()
    eng.frame_axioms = {}
    del T.MODREG[:]
    st = State()
    eng.init_heap(st)
    st.assume(st.heap['next'] > 2000)
    pkt = VRef(z3.Int('pkt'), 'Packet')
    st.assume(z3.And(pkt.z >= 0, pkt.z < 500))
    k = VKw(z3.Const('k', T.Kw))
    table = concrete_table(eng, st, info)
    eng.tv_fixed_names = [e['field_name'] for e in info['table']
                          if int_is_inlined(e) or (e['cls'] == 'Data' and e['is_fixed'] and e['byte_count'] is not None)]
    eng.tv_tables = {'get_fields': table,
                     'get_sync_before_pack_methods': VTuple([VFunc('detrole', 'SYNC.pack', z3.IntVal(3000 + i)) for i in range(info['sync_pack'])]),
                     'get_sync_after_unpack_methods': VTuple([VFunc('detrole', 'SYNC.unpack', z3.IntVal(3100 + i)) for i in range(info['sync_unpack'])])}
    if direction == 'unpack':
        raw = VBytes(z3.Const('raw', T.Bytes))
        off = VInt(z3.Int('offset'))
        st.assume(off.z >= 0)
        env_generic = {'self': pkt, 'raw': raw, 'offset': off, 'k': k}
        env_gen = {'pkt': pkt, 'raw': raw, 'offset': off, 'k': k}
        cname = 'packet:Packet.unpack_impl'
    else:
        fr = VRef(z3.Int('fragments'), 'Fragments')
        st.assume(z3.And(fr.z >= 500, fr.z < 900))
        cur = z3.Select(st.heap['Fragments.current_offset'], fr.z)
        occ = z3.Select(st.heap['Fragments.occ'], fr.z)
        q = z3.Int('q!tv')
        st.assume(cur >= 0)
        # nothing is stored at or after the cursor (appends cannot collide; collisions are C11 / C12)
        st.assume(z3.ForAll([q], z3.Implies(q >= cur, z3.Not(z3.Select(occ, q)))))
        # well-typedness of fixed Data values: exactly n bytes (struct pads/truncates, the loop does not)
        for e in info['table']:
            if e['cls'] == 'Data' and e['is_fixed'] and e['byte_count'] is not None:
                v = eng.slot_get(st, pkt.z, z3.StringVal(e['field_name']))
                st.assume(z3.Implies(T.Val.is_VBy(v), T.blen(T.Val.byval(v)) == e['byte_count']))
        env_generic = {'self': pkt, 'fragments': fr, 'k': k}
        env_gen = {'pkt': pkt, 'fragments': fr, 'k': k}
        cname = 'packet:Packet.pack_impl'
    c = eng.contracts[cname]
    gnode, _, sha = find_function(cname)
    eng.tv_sources[cname] = sha
    G = run_body(eng, c, gnode, st, env_generic)
    H = run_body(eng, c, gen_node, st, env_gen)
    comps = ['slots', 'has', 'llen', 'lat'] if direction == 'unpack' else \
            ['slots', 'has', 'Fragments.current_offset', 'Fragments.occ', 'Fragments.byt', 'Fragments.extent']

    def agree(gk, gs, gv, hk, hs, hv):
        if gk != hk:
            return z3.BoolVal(False)
        goals = []
        if gk == 'normal':
            if direction == 'unpack':
                goals.append(eng.as_int(gv)[0] == eng.as_int(hv)[0])
            for cpt in comps:
                if not gs.heap[cpt].eq(hs.heap[cpt]):
                    if cpt in ('slots', 'has'):
                        r_, n_ = z3.Int('r!eq'), z3.String('n!eq')
                        goals.append(z3.ForAll([r_, n_], z3.Select(z3.Select(gs.heap[cpt], r_), n_) == z3.Select(z3.Select(hs.heap[cpt], r_), n_)))
                    elif cpt in ('Fragments.occ', 'Fragments.byt', 'lat'):
                        r_, p_ = z3.Int('r!eq'), z3.Int('p!eq')
                        goals.append(z3.ForAll([r_, p_], z3.Select(z3.Select(gs.heap[cpt], r_), p_) == z3.Select(z3.Select(hs.heap[cpt], r_), p_)))
                    else:
                        r_ = z3.Int('r!eq')
                        goals.append(z3.ForAll([r_], z3.Select(gs.heap[cpt], r_) == z3.Select(hs.heap[cpt], r_)))
        else:
            if gv.cls != hv.cls:
                return z3.BoolVal(False)
            if gv.cls == 'PacketError' and gv.ref is not None and hv.ref is not None:
                key = 'PacketError.was_error_found_in_unpacking_phase'
                goals.append(z3.Select(gs.heap[key], gv.ref) == z3.Select(hs.heap[key], hv.ref))
                goals += located_agree(gs, gv, hs, hv)
        if os.environ.get('TV_ONLY'):
            goals = [goals[int(os.environ['TV_ONLY'])]]
        return z3.And(goals) if goals else z3.BoolVal(True)

    # --- where the error is located: the stack of (offset, name, class) entries of the two PacketErrors.
    # All entries but the newest are equal (they come with the propagated error); the newest is equal too, or - the
    # failing entry being one of a contiguous run A..B of fixed struct-coded entries - the generated code names the run
    # "between 'A' and 'B'" and reports the offset where A begins (= the generic offset minus the sizes of A..failing-1).
    fixed = [(e['name'], e['byte_count'] if e['cls'] == 'Data' else e.get('struct_size'))
             if (int_is_inlined(e) or (e['cls'] == 'Data' and e['is_fixed'] and e['byte_count'] is not None)) and e['struct_code'] else None
             for e in info['table']]
    runs = []      # (name of A, name of B, name of failing F, bytes from the beginning of A to the beginning of F)
    for a in range(len(fixed)):
        for b in range(a + 1, len(fixed)):
            if any(fixed[x] is None for x in range(a, b + 1)):
                break
            delta = 0
            for f_ in range(a, b + 1):
                runs.append((fixed[a][0], fixed[b][0], fixed[f_][0], delta))
                delta += fixed[f_][1]

    def located_agree(gs, gv, hs, hv):
        from pyvc.values import tuple_parts
        key = 'PacketError.fields_stack'
        gl, hl = z3.Select(gs.heap[key], gv.ref), z3.Select(hs.heap[key], hv.ref)
        glen, hlen = z3.Select(gs.heap['llen'], gl), z3.Select(hs.heap['llen'], hl)
        garr, harr = z3.Select(gs.heap['lat'], gl), z3.Select(hs.heap['lat'], hl)
        i_ = z3.Int('i!stack')
        out = [glen == hlen]
        if not os.environ.get('TV_NO_OLDER'):
            i_ = z3.Int('i!stack!%d' % len(eng.extra_hyps))     # a fresh constant: the goal is closed under generalisation
            out.append(z3.Implies(z3.And(0 <= i_, i_ < glen - 1), z3.Select(garr, i_) == z3.Select(harr, i_)))
        ge, he = z3.Select(garr, glen - 1), z3.Select(harr, hlen - 1)
        gt, gp = tuple_parts(ge, 3)
        ht, hp = tuple_parts(he, 3)
        alts = [ge == he]
        for a_, b_, f_, delta in runs:
            alts.append(z3.And(gt, ht, gp[1] == T.Val.VS(z3.StringVal(f_)),
                               hp[1] == T.Val.VS(z3.StringVal("between '%s' and '%s'" % (a_, b_))),
                               hp[2] == gp[2], T.Val.is_VI(gp[0]), T.Val.is_VI(hp[0]),
                               T.Val.ival(hp[0]) == T.Val.ival(gp[0]) - delta))
        if os.environ.get('TV_ALT'):
            a_, b_, f_, delta = runs[-1]
            parts = dict(gt=gt, ht=ht, gname=gp[1] == T.Val.VS(z3.StringVal(f_)), hname=hp[1] == T.Val.VS(z3.StringVal("between '%s' and '%s'" % (a_, b_))),
                         cls=hp[2] == gp[2], gi=T.Val.is_VI(gp[0]), hi=T.Val.is_VI(hp[0]), off=T.Val.ival(hp[0]) == T.Val.ival(gp[0]) - delta)
            return [parts[os.environ['TV_ALT']]]
        out.append(z3.Or(alts))
        return out

    # Every pair (generic path, generated path): if both can be taken on the same input they agree.
    # (The path conditions carry the definitions of the fresh symbols of their own path, so the two
    # sets are simply conjoined.)  Pairs whose conjunction is refuted by a quick resource-limited
    # query are discharged on the spot (backend "z3-api"); the others become solver obligations.
    obls, quick = [], 0
    base_ids = set(x.get_id() for x in st.pc)
    for gi, (gk, gs, gv) in enumerate(G):
        for hi, (hk, hs, hv) in enumerate(H):
            extra_h = [x for x in hs.pc if x.get_id() not in base_ids]
            sv = z3.Solver()
            sv.set('rlimit', 400000)
            sv.add(gs.pc)
            sv.add(extra_h)
            try:
                infeasible = sv.check() == z3.unsat
            except z3.Z3Exception:
                infeasible = False
            label = '%s/%s/generic#%d(%s) vs generated#%d(%s)' % (name, direction, gi, gk, hi, hk)
            if infeasible:
                quick += 1
                continue
            hyps = list(gs.pc) + extra_h + list(eng.extra_hyps)
            obls.append((label, hyps, agree(gk, gs, gv, hk, hs, hv)))
    return obls, '%d generic x %d generated paths, %d pairs refuted by the quick query' % (len(G), len(H), quick)


def check_classes(batch, direction_filter=None):
    """worker: build + validate a batch of declarations; returns list of result dicts"""
    infos = build_classes(batch)
    eng = tv_engine()
    results = []
    for d in batch:
        info = infos[d['name']]
        for direction in ('unpack', 'pack'):
            rec = dict(cls=d['name'], body=d['body'], options=d['options'], direction=direction)
            try:
                obls, note = validate(eng, d['name'], info, direction)
                rec['note'] = note
                items = []
                eng.ext = [T.ext_instance(a, b) for a, b in eng.ext_pairs]
                for (label, hyps, goal) in obls:
                    fh, used = eng.final_hyps(hyps, [goal])
                    items.append((label, to_smt2(fh, goal)))
                rec['items'] = items
                rec['source_sha'] = hashlib.sha256((info['source'] or '').encode()).hexdigest()
            except Untranslated as e:
                rec['error'] = 'UNTRANSLATED: %s' % e
            except Exception as e:
                import traceback
                rec['error'] = 'CRASH: %s\n%s' % (e, ''.join(traceback.format_exc().splitlines(True)[-8:]))
            results.append(rec)
    return results
