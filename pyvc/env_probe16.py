"""Bounded native replay for C16 (never counted as proof): the crash points of the cache update (the writer is
killed after every k-th byte it writes, then a fresh process defines the class) and single interleavings of two
processes (the other process' file operation is performed at a chosen point).  Also runs part A of
env_probe.py (the environment facts the model assumes).

usage: /venv/bin/python env_probe16.py <repo>    prints one JSON object {facts, scenarios, failures}"""
import json, os, subprocess, sys

HERE = os.path.dirname(os.path.abspath(__file__))
PROBES = [('crash at sampled byte offsets of the cache write, then a fresh definition', 'crash_points.py'),
          ('other process replaces the module between write and reload', 'replaced_before_reload.py'),
          ('other process removes the stale bytecode between exists() and remove()', 'pyc_removed_concurrently.py')]


def main():
    repo = sys.argv[1]
    out = dict(facts={}, scenarios=[], failures=[])
    env = dict(os.environ)
    p = subprocess.run([sys.executable, os.path.join(HERE, 'env_probe.py'), repo, '--facts-only'], capture_output=True, text=True, timeout=600)
    try:
        a = json.loads(p.stdout.strip().splitlines()[-1])
        out['facts'] = a['facts']
        out['failures'] += [f for f in a['failures'] if f.get('part') == 'A']
    except Exception as e:
        out['failures'].append(dict(part='A', error='probe did not run: %r %s' % (e, p.stderr[-300:])))
    for title, script in PROBES:
        p = subprocess.run([sys.executable, os.path.join(HERE, 'probes', script), repo], capture_output=True, text=True, timeout=900, env=env)
        line = (p.stdout.strip().splitlines() or ['(no output) ' + p.stderr[-300:]])[-1]
        ok = line.startswith('not reproduced')
        out['scenarios'].append(dict(history=title, ok=ok, output=line[:300]))
        if not ok:
            out['failures'].append(dict(part='B', history=title, detail=line[:600], script='pyvc/probes/' + script))
    print(json.dumps(out))


if __name__ == '__main__':
    main()
