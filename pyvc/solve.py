"""Discharge obligations with the solver CLIs (hard wall-clock kill, no shared state):
z3 5.1 (`z3-new`) first; on `unknown`/timeout /usr/bin/z3 4.8.12 and cvc5 as second opinions.
A query is the negated goal under its hypotheses; `unsat` = discharged."""
import os, subprocess, tempfile, time, shutil
from concurrent.futures import ThreadPoolExecutor
import z3

Z3NEW = shutil.which('z3-new') or '/opt/veriftools/pyvenv/bin/z3'


def to_smt2(hyps, goal):
    s = z3.Solver()
    for h in hyps:
        s.add(h)
    s.add(z3.Not(goal))
    return s.to_smt2()


def _run(cmd, fn, limit_s):
    try:
        p = subprocess.run(cmd + [fn], capture_output=True, text=True, timeout=limit_s + 3)
        return p.stdout
    except subprocess.TimeoutExpired:
        return 'timeout'
    except Exception as e:
        return 'error %r' % (e,)


def _solve_text(args):
    name, text, timeout_ms, second, want_model = args
    t0 = time.time()
    if text is None:
        return (name, 'unsat', 'trivial', 0.0, '')
    tsec = max(1, timeout_ms // 1000)
    fd, fn = tempfile.mkstemp(suffix='.smt2', prefix='pyvc_')
    with os.fdopen(fd, 'w') as f:
        f.write(text)
        if want_model:
            f.write('\n(get-model)\n')
    res, backend, model = 'unknown', 'z3-5.1', ''
    try:
        out = _run([Z3NEW, '-T:%d' % tsec, '-smt2', 'model.compact=true'], fn, tsec)
        first = out.strip().splitlines()[0] if out.strip() else ''
        if first in ('sat', 'unsat'):
            res = first
            if res == 'sat':
                model = out[:30000]
        else:
            model = out[:500]
        if res == 'unknown' and not second and first == 'unknown' and time.time() - t0 < 0.5 * tsec:
            # z3 5.1 GAVE UP at once (e.g. "incomplete (theory array)" on lambda-built arrays), it did not run out of time:
            # z3 4.8.12 decides these; asking it here keeps such answers out of the count of open obligations
            out2 = _run(['/usr/bin/z3', '-T:%d' % tsec, '-smt2'], fn, tsec)
            f2 = out2.strip().splitlines()[0] if out2.strip() else ''
            if f2 == 'unsat':
                res, backend = 'unsat', 'z3-4.8.12'
        if res == 'unknown' and second:
            # portfolio: quantifier instantiation order depends on the random seed; an `unsat` from any run is a proof
            for backend2, cmd in (('z3-5.1(seed 7)', [Z3NEW, '-T:%d' % tsec, '-smt2', 'smt.random_seed=7', 'sat.random_seed=7']),
                                  ('z3-5.1(seed 13)', [Z3NEW, '-T:%d' % tsec, '-smt2', 'smt.random_seed=13', 'sat.random_seed=13']),
                                  ('z3-4.8.12', ['/usr/bin/z3', '-T:%d' % tsec, '-smt2']),
                                  ('cvc5-1.0.3', ['/usr/bin/cvc5', '--tlimit=%d' % timeout_ms, '--lang=smt2'])):
                out2 = _run(cmd, fn, tsec)
                f2 = out2.strip().splitlines()[0] if out2.strip() else ''
                if f2 == 'unsat':
                    res, backend = 'unsat', backend2
                    break
    finally:
        try:
            os.unlink(fn)
        except OSError:
            pass
    return (name, res, backend, time.time() - t0, model)


def solve_all(items, timeout_ms=10000, second=True, procs=None, want_model=True):
    """items: list of (name, smt2 text or None). returns dict name -> (result, backend, secs, model)"""
    procs = procs or min(16, os.cpu_count() or 4)
    procs = procs or min(16, os.cpu_count() or 4)
    out = {}
    if not items:
        return out
    # pass 1: z3 5.1 alone, short budget
    first = min(timeout_ms, 3000)
    open_so_far = 0
    for c0 in range(0, len(items), 320):
        chunk = items[c0:c0 + 320]
        if open_so_far >= 150:
            # the code no longer fits (hundreds of open obligations): the rest is not attempted, it cannot change the verdict
            for n, t in chunk:
                out[n] = ('unknown', 'skipped', 0.0, 'not attempted: %d obligations were already open' % open_so_far)
            continue
        with ThreadPoolExecutor(max_workers=procs) as ex:
            for r in ex.map(_solve_text, [(n, t, first, False, False) for n, t in chunk]):
                out[r[0]] = r[1:]
                if r[1] != 'unsat':
                    open_so_far += 1
    # pass 2: what is left, full budget; the second-opinion portfolio only for the first 24 (many open obligations at
    # once mean the code no longer fits: the verdict cannot improve beyond that, and the cost must stay bounded)
    left = [(n, t) for n, t in items if out[n][0] != 'unsat' and out[n][1] != 'skipped']
    # up to 150 open obligations (a loaded machine, slow queries) all get the full budget and the portfolio; beyond that
    # the code no longer fits its contracts and only the first 48 are retried (24 with the portfolio)
    if len(left) <= 150:
        # (a busy machine makes slow queries slower: few open obligations get twice the budget)
        retry = [(n, t, max(timeout_ms, 20000), second, want_model) for (n, t) in left]
    else:
        retry = [(n, t, timeout_ms, second and i < 24, want_model and i < 24) for i, (n, t) in enumerate(left[:48])]
    if retry:
        with ThreadPoolExecutor(max_workers=procs) as ex:
            for r in ex.map(_solve_text, retry):
                prev = out[r[0]]
                out[r[0]] = (r[1], r[2], prev[2] + r[3], r[4])
    return out


def split_forms(text):
    """top-level s-expressions of an SMT-LIB script (handles "strings" and |quoted symbols|)"""
    forms, depth, start, i, n = [], 0, None, 0, len(text)
    while i < n:
        ch = text[i]
        if ch == '"':
            i += 1
            while i < n and text[i] != '"':
                i += 1
        elif ch == '|':
            i += 1
            while i < n and text[i] != '|':
                i += 1
        elif ch == ';' and depth == 0:
            while i < n and text[i] != '\n':
                i += 1
        elif ch == '(':
            if depth == 0:
                start = i
            depth += 1
        elif ch == ')':
            depth -= 1
            if depth == 0:
                forms.append(text[start:i + 1])
        i += 1
    return forms


def group_texts(group):
    """one one-shot script per check of the group: declarations + shared hypotheses + that goal only"""
    forms = split_forms(group['prelude'])
    n = len(group['checks'])
    asserts = [i for i, f in enumerate(forms) if f.startswith('(assert')]
    sel = asserts[len(asserts) - n:]
    selset = set(sel)
    common = '\n'.join(f for i, f in enumerate(forms) if i not in selset)
    out = []
    for (oname, kind, info, p), si in zip(group['checks'], sel):
        out.append((oname, kind, common + '\n' + forms[si] + '\n(assert %s)\n(check-sat)\n' % p))
    return out


def solve_groups(groups, timeout_ms=10000, second=True, procs=None, short=()):
    """groups: [dict(prelude, checks=[(oname, kind, info, pvar)])].  Every check is run one-shot in
    its own solver process (the hypotheses are serialised once per group).  Pass 1: z3 5.1 only,
    short budget; pass 2: what is left, full budget, with model and the second-opinion solvers.
    Obligation kinds starting with a prefix in `short` get a 3 s budget and no second opinion."""
    procs = procs or min(16, os.cpu_count() or 4)
    out = {}
    items = []
    for g in groups:
        items += group_texts(g)
    if not items:
        return out
    first = min(timeout_ms, 3000)
    with ThreadPoolExecutor(max_workers=procs) as ex:
        for r in ex.map(_solve_text, [(n, t, first, False, False) for n, k, t in items]):
            out[r[0]] = r[1:]
    retry = []
    for n, k, t in items:
        if out[n][0] != 'unsat':
            is_short = any(k.startswith(s) for s in short)
            retry.append((n, t, 3000 if is_short else timeout_ms, second and not is_short, True))
    # many open obligations at once mean the code no longer fits the contract: the full budget and the
    # second-opinion solvers are spent on the first 24 only (the verdict cannot improve beyond that)
    if len(retry) > 150:
        retry = retry[:24] + [r for r in retry[24:] if r[2] == 3000]
    if retry:
        with ThreadPoolExecutor(max_workers=procs) as ex:
            for r in ex.map(_solve_text, retry):
                prev = out[r[0]]
                out[r[0]] = (r[1], r[2], prev[2] + r[3], r[4])
    return out
