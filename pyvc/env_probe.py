"""Bounded native cross-check of the ENVIRONMENT CONTRACTS of pyvc/envmodel.py and of C15 itself.

Never counted as proof.  Part A replays, against CPython's real import system, the facts the environment
model assumes about SourceFileLoader.load_module (the two subtle ones: bytecode is reused when the recorded
(mtime, size) stamp equals the source's; a module that is already in sys.modules is re-executed in place, so
names defined earlier survive).  Part B runs the real class builder of the repository through definition
histories in a scratch directory (same-named classes, same-length generated source, same mtime, with and
without stale bytecode, generation switched off and on, same process and fresh processes) and compares every
class with the generic (non generated) behaviour of its own declaration.

usage: /venv/bin/python env_probe.py <repo>      prints one JSON object {facts: {...}, scenarios: [...], failures: [...]}
"""
import json, os, subprocess, sys, tempfile, textwrap, shutil

PART_A = r'''
import os, sys, json, importlib.util
from importlib.machinery import SourceFileLoader
sys.dont_write_bytecode = False
out = {}
d = os.getcwd()
p = os.path.join(d, 'probe_mod.py')
def write(text, mtime=None):
    with open(p, 'w') as f:
        f.write(text)
    if mtime is not None:
        os.utime(p, (mtime, mtime))
# --- F1: open(..., 'w') truncates, write appends
write('a = 1\nb = 2\n'); write('a = 3\n')
out['open_w_truncates'] = open(p).read() == 'a = 3\n'
# --- F2: re-execution into the existing sys.modules entry: names defined earlier survive
write('a = 1\nb = 2\n', 1000000000)
m1 = SourceFileLoader('probe_mod', p).load_module()
write('a = 7\nc = 9\n', 1000000100)
m2 = SourceFileLoader('probe_mod', p).load_module()
out['reexec_same_object'] = m1 is m2
out['reexec_keeps_old_names'] = getattr(m2, 'b', None) == 2 and m2.a == 7 and m2.c == 9
out['cached_attr'] = getattr(m2, '__cached__', None) == importlib.util.cache_from_source(p)
# --- F3: bytecode with the same (mtime, size) stamp is reused although the source text differs
del sys.modules['probe_mod']
write('v = 111\n', 1000000200)
SourceFileLoader('probe_mod', p).load_module()             # writes bytecode for 'v = 111'
pyc = importlib.util.cache_from_source(p)
out['pyc_written'] = os.path.exists(pyc)
del sys.modules['probe_mod']
write('v = 222\n', 1000000200)                             # same size, same mtime
m = SourceFileLoader('probe_mod', p).load_module()
out['stale_pyc_reused_on_equal_stamp'] = (m.v == 111)
del sys.modules['probe_mod']
os.remove(pyc)
m = SourceFileLoader('probe_mod', p).load_module()
out['source_used_when_pyc_removed'] = (m.v == 222)
# --- F4: a different stamp invalidates the bytecode
del sys.modules['probe_mod']
write('v = 333\n', 1000000300)
m = SourceFileLoader('probe_mod', p).load_module()
out['pyc_ignored_on_different_stamp'] = (m.v == 333)
# --- F5: exceptions of the executed text propagate (SyntaxError is not an ImportError)
del sys.modules['probe_mod']
write('def f(:\n', 1000000400)
try:
    SourceFileLoader('probe_mod', p).load_module(); out['syntax_error_propagates'] = False
except ImportError:
    out['syntax_error_propagates'] = False
except SyntaxError:
    out['syntax_error_propagates'] = True
# --- F6: NamedTemporaryFile(dir=, delete=False) creates a new file; os.replace moves it over the target as a whole
import tempfile
before = set(os.listdir(d))
with tempfile.NamedTemporaryFile('w', dir=d, suffix='.tmp', delete=False) as tf:
    tf.write('x = 1\n'); tf.write('y = 2\n')
out['tempfile_is_new_and_kept'] = os.path.basename(tf.name) not in before and os.path.exists(tf.name)
write('old = 0\n', 1000000500)
st_tmp = os.stat(tf.name)
os.replace(tf.name, p)
out['replace_moves_whole_content'] = open(p).read() == 'x = 1\ny = 2\n' and not os.path.exists(tf.name)
out['replace_keeps_stamp_of_source'] = int(os.stat(p).st_mtime) == int(st_tmp.st_mtime) and os.stat(p).st_size == st_tmp.st_size
try:
    os.remove(os.path.join(d, 'does_not_exist.pyc')); out['remove_missing_raises_FileNotFoundError'] = False
except FileNotFoundError:
    out['remove_missing_raises_FileNotFoundError'] = True
print(json.dumps(out))
'''

DECL = r'''
import sys, os, json, importlib
sys.dont_write_bytecode = %(dwb)s
from bisturi.packet import Packet
from bisturi.field import Int, Data

def behaviour(cls, raw):
    """(values parsed from raw, bytes packed back) through whatever implementation the class got"""
    p = cls.unpack(raw)
    vals = [repr(getattr(p, n)) for n, _, _, _ in cls.get_fields()]
    return [vals, p.pack().hex()]

res = []
%(body)s
print(json.dumps(res))
'''


def cls_src(name, fields, options, tag):
    lines = ['class %s(Packet):' % name, '    __bisturi__ = %r' % (options,)]
    lines += ['    %s = %s' % (n, f) for n, f in fields]
    # the generic twin of the same declaration: generation off
    lines += ['class %s_generic_%s(Packet):' % (name, tag), "    __bisturi__ = {'generate_for_pack': False, 'generate_for_unpack': False}"]
    lines += ['    %s = %s' % (n, f) for n, f in fields]
    lines += ["raw = bytes(range(1, 40))",
              "res.append(dict(tag=%r, got=behaviour(%s, raw), want=behaviour(%s_generic_%s, raw),"
              " uses_generated=[%s.pack_impl.__module__ != 'bisturi.packet', %s.unpack_impl.__module__ != 'bisturi.packet']))"
              % (tag, name, name, tag, name, name)]
    return '\n'.join(lines)


def run(repo, workdir, script, env_extra=None, fname='decls.py'):
    path = os.path.join(workdir, fname)
    with open(path, 'w') as f:
        f.write(script)
    env = dict(os.environ, PYTHONPATH=repo)
    env.pop('PYTHONDONTWRITEBYTECODE', None)
    env.update(env_extra or {})
    p = subprocess.run([sys.executable, path], cwd=workdir, env=env, capture_output=True, text=True, timeout=120)
    if p.returncode != 0:
        return None, (p.stderr or p.stdout)[-1500:]
    return json.loads(p.stdout.strip().splitlines()[-1]), None


def main():
    repo = sys.argv[1]
    out = dict(facts={}, scenarios=[], failures=[])
    base = tempfile.mkdtemp(prefix='pyvc_envprobe_')
    try:
        # ---------------- part A
        wa = os.path.join(base, 'a')
        os.makedirs(wa)
        facts, err = run(repo, wa, PART_A, fname='part_a.py')
        if facts is None:
            out['failures'].append(dict(part='A', error=err))
        else:
            out['facts'] = facts
            for k, v in facts.items():
                if v is not True:
                    out['failures'].append(dict(part='A', fact=k, value=v))
        if '--facts-only' in sys.argv:
            print(json.dumps(out))
            return
        # ---------------- part B: definition histories.  Same-length generated sources: permuted widths.
        A = [('a', 'Int(1)'), ('b', 'Int(2)'), ('c', 'Data(3)')]
        B = [('a', 'Int(2)'), ('b', 'Int(1)'), ('c', 'Data(3)')]      # same generated length as A
        C = [('a', 'Int(4)'), ('b', 'Data(2)')]
        ON = {}
        OFFP = {'generate_for_pack': False}
        OFFU = {'generate_for_unpack': False}
        histories = {
            'same-process A,B,A (same length)': [[('P', A, ON), ('P', B, ON), ('P', A, ON)]],
            'same-process A,C,A': [[('P', A, ON), ('P', C, ON), ('P', A, ON)]],
            'same-process pack off then on': [[('P', A, ON), ('P', B, OFFP), ('P', C, ON), ('P', A, OFFU), ('P', B, ON)]],
            # bytecode written for A, then bytecode writing switched off and B (same length, same second) defined
            'same-process A, dont_write_bytecode, B, A (same length)': [[('P', A, ON), ('!dwb', True, None), ('P', B, ON), ('P', A, ON),
                                                                          ('!dwb', False, None), ('P', B, ON)]],
            # a blank cache file (imports, defines nothing): before the first definition, and between two definitions
            'blank cache file, then A': [[('!blank', 'P', True), ('P', A, ON)]],
            'A | blank cache file, then A again and B': [[('P', A, ON)], [('!blank', 'P', True), ('P', A, ON), ('P', B, ON)]],
            'same-process A, blank cache file, A (module stays in sys.modules)': [[('P', A, ON), ('!blank', 'P', False), ('P', A, ON), ('P', B, OFFP)]],
            'two processes A | B (same length)': [[('P', A, ON)], [('P', B, ON)]],
            'three processes A | B | A': [[('P', A, ON)], [('P', B, ON)], [('P', A, ON)]],
            'processes with options changed': [[('P', A, ON)], [('P', A, OFFP)], [('P', B, OFFU)], [('P', B, ON)]],
        }
        for dwb in (False, True):
            for title, procs in histories.items():
                w = os.path.join(base, 'b_%d_%d' % (dwb, abs(hash(title)) % 10 ** 8))
                os.makedirs(w)
                ok, detail = True, []
                for pi, defs in enumerate(procs):
                    def piece(di, n, f, o):
                        if n == '!dwb':
                            return 'sys.dont_write_bytecode = %r' % (f,)
                        if n == '!blank':   # a cache file that imports and defines nothing (empty; left by something else)
                            return ("os.makedirs('__pkts__', exist_ok=True); open(os.path.join('__pkts__', 'decls_%s.py'), 'w').close(); "
                                    "sys.modules.pop('decls_%s', None) if %r else None" % (f, f, bool(o)))
                        return cls_src(n, f, o, 'p%dd%d' % (pi, di))
                    body = '\n'.join(piece(di, n, f, o) for di, (n, f, o) in enumerate(defs))
                    res, err = run(repo, w, DECL % dict(dwb=dwb, body=body))
                    if res is None:
                        ok = False
                        detail.append(dict(process=pi, error=err))
                        break
                    for r in res:
                        if r['got'] != r['want']:
                            ok = False
                            detail.append(dict(process=pi, **r))
                out['scenarios'].append(dict(history=title, dont_write_bytecode=dwb, ok=ok))
                if not ok:
                    out['failures'].append(dict(part='B', history=title, dont_write_bytecode=dwb, detail=detail))
    finally:
        shutil.rmtree(base, ignore_errors=True)
    print(json.dumps(out))


if __name__ == '__main__':
    main()
