"""Bounded run-time contract check of the CLASS-BUILDER pipeline (bisturi/packet_builder.py).  Never counted as proof.

The builder steps are written with map/zip/sum/filter over iterators, closures and list comprehensions and are outside
the subset of the VC generator (except collect_sync_methods_from_field_descriptors, which is proved).  Every claim
ASSUMES what these steps establish (FieldsWF: "the field table a class runs is the described field list, every entry
compiled once with its own index in that table and the class options; the hooks a class runs are those of its own
descriptors, one per field, in table order; the code generator gets that same table").  Here those assumptions are
stated as postconditions of the REAL builder methods and checked at run time (sidecar wrappers installed on
PacketClassBuilder in a child process; the repository is not edited) while the real metaclass builds a seeded corpus of
declarations: plain / positioned (at, shift, aligned, class-wide align) / described fields, bit-field runs, references,
repeated and optional fields, all generation options, additional slots.

usage: /venv/bin/python probe_builder.py <repo> [seed] [budget]   prints one JSON object {facts, scenarios, failures}
bound: max(40, 3*budget) declarations of 1..6 fields per run (quick: 180, thorough: 1800)."""
import json, os, shutil, subprocess, sys, tempfile

CHILD = r'''
import importlib, json, os, random, sys, traceback
seed, ndecl = int(sys.argv[1]), int(sys.argv[2])
sys.path.insert(0, os.getcwd())
import bisturi.packet_builder as PB
import bisturi.field as F
import bisturi.structural_fields as SF
import bisturi.codegen as CG
from bisturi.packet import Packet

failures = []
current = dict(decl=None)
def fail(step, clause, **detail):
    failures.append(dict(part='B', step=step, clause=clause, history='%s: %s' % (step, clause), declaration=current['decl'],
                         detail={k: repr(v)[:300] for k, v in detail.items()}))

# ------------------------------------------------------------------ recording wrappers (outermost calls only)
depth = [0]
compile_calls = []         # (field, position, fields, conf, returned slots)
def all_subclasses(c):
    out = [c]
    for s in c.__subclasses__():
        out += all_subclasses(s)
    return out
def wrap_compile(cls):
    orig = cls.__dict__['_compile']
    def _compile(self, position, fields, bisturi_conf):
        outer = depth[0] == 0
        depth[0] += 1
        try:
            r = orig(self, position, fields, bisturi_conf)
        finally:
            depth[0] -= 1
        if outer:
            compile_calls.append((self, position, fields, bisturi_conf, r))
        return r
    cls._compile = _compile
for c in all_subclasses(F.Field):
    if '_compile' in c.__dict__:
        wrap_compile(c)

hook_log = []
desc_compile_calls = []
class RecBase(object):
    """a descriptor whose hooks only record that they ran, on which descriptor and with which packet"""
    def __init__(self, tag):
        self.tag = tag
    def __get__(self, instance, owner):
        if instance is None:
            return self
        return getattr(instance, self.real_field_name)
    def __set__(self, instance, val):
        setattr(instance, self.real_field_name, val)
class RecCompiled(RecBase):
    def _compile(self, field_name, descriptor_name, bisturi_conf):
        desc_compile_calls.append((self, field_name, descriptor_name, bisturi_conf))
        return ['_rec_slot_%s' % descriptor_name]
class RecBoth(RecCompiled):
    def sync_before_pack(self, instance):
        hook_log.append((self, 'before', instance))
    def sync_after_unpack(self, instance):
        hook_log.append((self, 'after', instance))
class RecBefore(RecCompiled):
    def sync_before_pack(self, instance):
        hook_log.append((self, 'before', instance))
class RecAfter(RecBase):
    def sync_after_unpack(self, instance):
        hook_log.append((self, 'after', instance))
class RecNone(RecBase):
    pass

codegen_calls = []
_cg_init = CG.CodeGenerator.__init__
def cg_init(self, fields, pkt_class, generate_for_pack, generate_for_unpack, *a, **k):
    codegen_calls.append((list(fields), pkt_class, generate_for_pack, generate_for_unpack))
    return _cg_init(self, fields, pkt_class, generate_for_pack, generate_for_unpack, *a, **k)
CG.CodeGenerator.__init__ = cg_init

def is_pkt(v):
    import inspect
    return (inspect.isclass(v) and issubclass(v, Packet)) or isinstance(v, Packet)

# ------------------------------------------------------------------ the contracts, one per builder step
evaluated = {}
def contract(name):
    def deco(spec):
        orig = PB.PacketClassBuilder.__dict__[name]
        def wrapped(self, *a, **k):
            gen = spec(self)
            next(gen)                       # the part before the call: snapshot of the pre-state
            r = orig(self, *a, **k)
            evaluated[name] = evaluated.get(name, 0) + 1
            try:
                next(gen)                   # the postcondition
            except StopIteration:
                pass
            return r
        setattr(PB.PacketClassBuilder, name, wrapped)
        return spec
    return deco

@contract('collect_the_fields_from_class_definition')
def _(b):
    attrs = list(b.attrs.items())
    yield
    want = [(n, v) for n, v in attrs if isinstance(v, F.Field) or is_pkt(v)]
    got = b.fields_in_class
    if [n for n, _ in got] != [n for n, _ in want]:
        fail('collect_the_fields_from_class_definition', 'the collected names are the field-like attributes in class-body order',
             got=[n for n, _ in got], want=[n for n, _ in want])
    for (n, f), (_, v) in zip(got, want):
        if isinstance(v, F.Field) and f is not v:
            fail('collect_the_fields_from_class_definition', 'a declared field object is collected as itself', name=n)
        if is_pkt(v) and not (isinstance(f, F.Ref)):
            fail('collect_the_fields_from_class_definition', 'a packet class or instance becomes a Ref field', name=n, got=f)
    if b.original_fields_in_class != b.fields_in_class or b.original_fields_in_class is b.fields_in_class:
        fail('collect_the_fields_from_class_definition', 'original_fields_in_class is an equal, separate copy')

@contract('ask_to_each_field_to_describe_itself')
def _(b):
    declared = list(b.fields_in_class)
    yield
    table = b.fields
    borrowed = []          # the entries an embedded reference borrows from its prototype follow it directly
    for n, f in declared:
        if getattr(f, 'embed', False):
            borrowed += [id(e[1]) for e in f.prototype.get_fields()]
    mains = [(n, f) for n, f in table if not isinstance(f, SF.Move) and id(f) not in borrowed]
    if [id(f) for _, f in mains] != [id(f) for _, f in declared]:
        fail('ask_to_each_field_to_describe_itself', 'the table holds every declared field exactly once, in declaration order',
             got=[n for n, _ in mains], want=[n for n, _ in declared])
    for n, f in declared:
        if getattr(f, 'embed', False):
            at = [i for i, (_, g) in enumerate(table) if g is f]
            want = [(e[0], id(e[1])) for e in f.prototype.get_fields()]
            if not at or [(m, id(g)) for m, g in table[at[0] + 1: at[0] + 1 + len(want)]] != want:
                fail('ask_to_each_field_to_describe_itself', 'an embedded reference is followed by the fields of its prototype, in their order', name=n)
    for i, (n, f) in enumerate(table):
        if f.field_name != n:
            fail('ask_to_each_field_to_describe_itself', 'the table name of an entry is the name the field stores values under', name=n, field_name=f.field_name)
        if isinstance(f, SF.Move):
            nxt = table[i + 1][1] if i + 1 < len(table) else None
            if id(f) in borrowed:
                continue
            if nxt is None or isinstance(nxt, SF.Move) or nxt.move_arg is None:
                fail('ask_to_each_field_to_describe_itself', 'a movement entry stands immediately before the positioned field it belongs to', name=n)
    for (dn, f) in declared:
        if f.descriptor:
            if f.descriptor_name != dn or f.field_name == dn or f.descriptor.descriptor_name != dn or f.descriptor.real_field_name != f.field_name:
                fail('ask_to_each_field_to_describe_itself', 'a described field keeps the declared name for its descriptor, stores under a hidden name, and tells the descriptor both', name=dn)
        elif f.field_name != dn:
            fail('ask_to_each_field_to_describe_itself', 'an undescribed field stores under its declared name', name=dn, field_name=f.field_name)
        moved = f.move_arg is not None
        idx = [i for i, (_, g) in enumerate(table) if g is f][0] if any(g is f for _, g in table) else None
        if idx is not None:
            has_move = idx > 0 and isinstance(table[idx - 1][1], SF.Move)
            if moved != has_move:
                fail('ask_to_each_field_to_describe_itself', 'a field is preceded by a movement entry iff it is positioned (at/shift/aligned or class-wide align)', name=dn)
    names = [n for n, _ in table]
    if len(set(names)) != len(names):
        fail('ask_to_each_field_to_describe_itself', 'table names are distinct', names=names)

@contract('compile_fields_and_create_slots')
def _(b):
    del compile_calls[:]
    yield
    table = b.fields
    for i, (n, f) in enumerate(table):
        mine = [c for c in compile_calls if c[0] is f]
        if len(mine) != 1:
            fail('compile_fields_and_create_slots', 'every table entry is compiled exactly once by the builder', name=n, index=i, calls=len(mine))
            continue
        _, pos, flds, conf, _ = mine[0]
        if pos != i:
            fail('compile_fields_and_create_slots', 'every table entry is compiled with its own index in the table', name=n, index=i, compiled_with=pos)
        if flds is not table:
            fail('compile_fields_and_create_slots', 'every table entry is compiled against the described table itself', name=n, index=i,
                 got=[x[0] for x in flds])
        if conf is not b.bisturi_conf:
            fail('compile_fields_and_create_slots', 'every table entry is compiled with the class options', name=n)
    extra = [c for c in compile_calls if not any(c[0] is f for _, f in table)]
    if extra:
        fail('compile_fields_and_create_slots', 'nothing outside the table is compiled by the builder', extra=[c[0] for c in extra])
    want = list(b.bisturi_conf.get('additional_slots', [])) + sum([c[4] for c in compile_calls if any(c[0] is f for _, f in table)], [])
    if sorted(b.slots) != sorted(want):
        fail('compile_fields_and_create_slots', 'the slots are those returned by the fields plus the additional ones', got=sorted(b.slots), want=sorted(want))

@contract('compile_descriptors_and_extend_slots')
def _(b):
    del desc_compile_calls[:]
    before = list(b.slots)
    yield
    want_extra = []
    for n, f in b.fields:
        d = f.descriptor
        if d is not None and hasattr(d, '_compile') and isinstance(d, RecBase):
            mine = [c for c in desc_compile_calls if c[0] is d]
            if len(mine) != 1 or mine[0][1] != n or mine[0][2] != f.descriptor_name or mine[0][3] is not b.bisturi_conf:
                fail('compile_descriptors_and_extend_slots', 'a descriptor is compiled once with the names of its own field and the class options', name=n,
                     calls=[c[1:3] for c in mine])
            want_extra.append('_rec_slot_%s' % f.descriptor_name)
    recs = [s for s in b.slots if str(s).startswith('_rec_slot_')]
    if sorted(recs) != sorted(want_extra) or [s for s in b.slots if not str(s).startswith('_rec_slot_') and not str(s).startswith('_is_descriptor_')] != \
            [s for s in before if not str(s).startswith('_rec_slot_') and not str(s).startswith('_is_descriptor_')]:
        fail('compile_descriptors_and_extend_slots', 'the slot list is extended by exactly the slots the descriptors return', got=b.slots, before=before)

@contract('remove_fields_from_class_definition')
def _(b):
    yield
    left = [n for n, _ in b.original_fields_in_class if n in b.attrs]
    if left:
        fail('remove_fields_from_class_definition', 'no declared field stays a class attribute', left=left)

@contract('add_descriptors_to_class_definition')
def _(b):
    before = list(b.slots)
    yield
    gone = []
    for n, f in b.fields:
        if f.descriptor:
            if b.attrs.get(f.descriptor_name) is not f.descriptor:
                fail('add_descriptors_to_class_definition', 'the descriptor of a described field becomes the class attribute of the declared name', name=n)
            if f.descriptor_name in b.slots:
                fail('add_descriptors_to_class_definition', 'the declared name of a described field is not a slot', name=n)
            gone.append(f.descriptor_name)
    if sorted(b.slots) != sorted(s for s in before if s not in gone):
        fail('add_descriptors_to_class_definition', 'all other slots are kept', got=b.slots, before=before)

@contract('collect_sync_methods_from_field_descriptors')
def _(b):
    yield
    for kind, attr, methods in (('before', 'sync_before_pack', b.sync_before_pack_methods), ('after', 'sync_after_unpack', b.sync_after_unpack_methods)):
        want = [f.descriptor for _, f in b.fields if f.descriptor and hasattr(f.descriptor, attr)]
        if len(methods) != len(want):
            fail('collect_sync_methods_from_field_descriptors', 'one %s hook per described field that has one' % attr, got=len(methods), want=len(want))
            continue
        for k, (m, d) in enumerate(zip(methods, want)):
            if not isinstance(d, RecBase):
                continue
            del hook_log[:]
            sentinel = object()
            try:
                m(sentinel)
            except Exception as e:
                fail('collect_sync_methods_from_field_descriptors', 'calling hook %d does not raise' % k, error=e)
                continue
            if len(hook_log) != 1 or hook_log[0][0] is not d or hook_log[0][1] != kind or hook_log[0][2] is not sentinel:
                fail('collect_sync_methods_from_field_descriptors',
                     'hook number k runs the %s of the k-th described field (table order), once, on the packet it is given' % attr,
                     k=k, want=d.tag, ran=[(x[0].tag, x[1]) for x in hook_log])

@contract('lookup_pack_unpack_methods')
def _(b):
    before = list(b.fields)
    yield
    after = b.fields
    if len(after) != len(before):
        fail('lookup_pack_unpack_methods', 'the table keeps its length', got=len(after), want=len(before))
    for (n, f), e in zip(before, after):
        if len(e) != 4 or e[0] != n or e[1] is not f or e[2] != f.pack or e[3] != f.unpack:
            fail('lookup_pack_unpack_methods', 'entry i becomes (name_i, field_i, field_i.pack, field_i.unpack)', name=n, got=e)

@contract('create_optimized_code')
def _(b):
    del codegen_calls[:]
    yield
    if len(codegen_calls) != 1:
        fail('create_optimized_code', 'the code generator is invoked once', calls=len(codegen_calls))
        return
    flds, cls, gp, gu = codegen_calls[0]
    want = [(i, e[0], e[1]) for i, e in enumerate(b.fields)]
    if len(flds) != len(want) or any(a[0] != w[0] or a[1] != w[1] or a[2] is not w[2] for a, w in zip(flds, want)):
        fail('create_optimized_code', 'the code generator is given the whole field table (index, name, field), in order',
             got=[(a[0], a[1]) for a in flds], want=[(w[0], w[1]) for w in want])
    if cls is not b.cls:
        fail('create_optimized_code', 'the code generator is given the class being built')
    dbg = any(isinstance(e[1], F.Bkpt) for e in b.fields)
    if gp != b.bisturi_conf.get('generate_for_pack', not dbg) or gu != b.bisturi_conf.get('generate_for_unpack', not dbg):
        fail('create_optimized_code', 'generation follows the generate_for_pack / generate_for_unpack options', got=(gp, gu))

@contract('get_packet_class')
def _(b):
    yield
    c = b.cls
    if c.get_fields() is not b.fields or any(len(e) != 4 for e in c.get_fields()):
        fail('get_packet_class', 'get_fields() returns the final field table')
    if c.get_sync_before_pack_methods() is not b.sync_before_pack_methods or c.get_sync_after_unpack_methods() is not b.sync_after_unpack_methods:
        fail('get_packet_class', 'the class returns the hook lists collected for it')
    if c.__bisturi__ is not b.bisturi_conf:
        fail('get_packet_class', 'the class carries the options it was built with')
    missing = [e[0] for e in c.get_fields() if e[0] not in c.__slots__ and not isinstance(e[1], SF.Move)]
    if missing:
        fail('get_packet_class', 'every value-holding table name is a slot of the class', missing=missing)

# ------------------------------------------------------------------ the corpus
rnd = random.Random(seed)
PRELUDE = """from bisturi.packet import Packet
from bisturi.field import Int, Data, Bits, Ref
from bisturi.descriptor import Auto, AutoLength
from __main__ import RecBoth, RecBefore, RecAfter, RecNone

class Inner(Packet):
    p = Int(1)
    q = Int(2)

class InnerD(Packet):
    n = Int(1).describe(RecBoth('inner-n'))
    m = Data(1)

"""
def base_field():
    return rnd.choice(['Int(1)', 'Int(2)', 'Int(4, endianness="little")', 'Int(2, signed=True)', 'Data(2)', 'Data(until_marker=b"\\n")',
                       'Ref(Inner)', 'Inner', 'Ref(Inner(), embed=True)', 'Ref(InnerD(), embed=True)', 'Int(1).repeated(2)', 'Data(1).repeated(count=3)', 'Int(1).when(lambda pkt, **k: True)'])
def decorate(expr, k):
    if expr == 'Inner':
        return expr
    r = rnd.random()
    if r < 0.18:
        expr += rnd.choice(['.at(%d)' % rnd.randrange(0, 40), '.shift(%d)' % rnd.randrange(0, 4), '.aligned(%d)' % rnd.choice([2, 4, 8])])
    if rnd.random() < 0.35 and '.repeated' not in expr and '.when' not in expr and not expr.startswith('Ref'):   # (a described reference is not a supported declaration)
        expr += '.describe(%s(%r))' % (rnd.choice(['RecBoth', 'RecBoth', 'RecBefore', 'RecAfter', 'RecNone']), 'd%d' % k)
    return expr
def declaration(di):
    lines, k = [], 0
    n = rnd.randrange(1, 7)
    while len(lines) < n:
        if rnd.random() < 0.3:       # a run of bit fields filling whole bytes
            widths = rnd.choice([[8], [4, 4], [1, 7], [3, 5], [1, 2, 5], [4, 12], [2, 6, 8], [1, 1, 1, 1, 4], [12, 4]])
            first = True
            for w in widths:
                e = 'Bits(%d)' % w
                if first and rnd.random() < 0.25:
                    e += rnd.choice(['.at(%d)' % rnd.randrange(0, 40), '.aligned(4)'])
                first = False
                lines.append('    f%d = %s' % (k, e)); k += 1
        else:
            e = base_field()
            while 'embed' in e and any('embed' in l for l in lines):
                e = base_field()
            lines.append('    f%d = %s' % (k, decorate(e, k))); k += 1
    opts = {}
    if rnd.random() < 0.3: opts['generate_for_pack'] = rnd.random() < 0.5
    if rnd.random() < 0.3: opts['generate_for_unpack'] = rnd.random() < 0.5
    if rnd.random() < 0.2: opts['additional_slots'] = ['extra_a', 'extra_b'][:rnd.randrange(1, 3)]
    if rnd.random() < 0.12 and not any('Bits' in l for l in lines): opts['align'] = rnd.choice([2, 4])
    if rnd.random() < 0.15: opts['endianness'] = rnd.choice(['little', 'big'])
    head = ['class D%d(Packet):' % di]
    if opts:
        head.append('    __bisturi__ = %r' % (opts,))
    return '\n'.join(head + lines) + '\n'

built = 0
raised = []
for di in range(ndecl):
    src = declaration(di)
    current['decl'] = src
    name = 'pb_decl_%d' % di
    with open(name + '.py', 'w') as fh:
        fh.write(PRELUDE + src)
    try:
        importlib.import_module(name)
        built += 1
    except Exception as e:
        raised.append(dict(declaration=src, error=traceback.format_exc()[-600:]))
    if len(failures) > 12:
        break
if raised:
    failures.append(dict(part='B', step='class definition', clause='defining a class of the corpus does not raise', declaration=raised[0]['declaration'],
                         history='class definition raises', detail=raised[:2]))
for step in list(evaluated):
    if evaluated[step] < built:          # vacuity guard: a postcondition that was not evaluated for every class decides nothing
        failures.append(dict(part='A', fact='postcondition of %s evaluated %d times for %d classes' % (step, evaluated[step], built)))
if len(evaluated) < 10 and not raised:
    failures.append(dict(part='A', fact='only %d of the 10 builder steps were reached: %r' % (len(evaluated), sorted(evaluated))))
print(json.dumps(dict(facts=dict(postcondition_evaluations=evaluated), scenarios=[dict(history='builder-step postconditions on %d seeded declarations (%d built)' % (ndecl, built),
                                                  ok=not failures)], failures=failures[:6]), default=repr))
'''


def main():
    repo = sys.argv[1]
    seed = int(sys.argv[2]) if len(sys.argv) > 2 else 0
    budget = int(sys.argv[3]) if len(sys.argv) > 3 else 60
    work = tempfile.mkdtemp(prefix='pyvc_builder_')
    try:
        path = os.path.join(work, 'probe_child.py')
        open(path, 'w').write(CHILD)
        env = dict(os.environ, PYTHONPATH=repo, PYTHONDONTWRITEBYTECODE='1')
        p = subprocess.run([sys.executable, path, str(seed), str(max(40, 3 * budget))], cwd=work, env=env, capture_output=True, text=True, timeout=1500)
        if p.returncode != 0:
            print(json.dumps(dict(facts={}, scenarios=[], failures=[dict(part='A', error='probe crashed: ' + p.stderr[-1500:])])))
        else:
            print(p.stdout.strip().splitlines()[-1])
    finally:
        shutil.rmtree(work, ignore_errors=True)


if __name__ == '__main__':
    main()
