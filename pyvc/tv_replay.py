"""Native differential replay for C03: for one declaration (body lines + options) define the class twice with the
REAL builder - once with the given options (generated code) and once with generation switched off (generic loop) -
and search seeded random inputs for one on which the two disagree (value, output bytes, or exception class).

usage (under /venv/bin/python, PYTHONPATH=<repo>): tv_replay.py <json: {"body": [...], "options": {...}}> [seed] [budget]
prints one JSON object {reproduced: bool, direction, input, generic, generated}"""
import json, os, random, sys, tempfile, shutil

HEADER = """from bisturi.packet import Packet
from bisturi.field import Int, Data, Bits, Ref, Em
from bisturi.descriptor import Auto, AutoLength

class Inner(Packet):
    __bisturi__ = {'generate_for_pack': False, 'generate_for_unpack': False}
    p = Int(1)
    q = Int(2)


class Both(AutoLength):
    # a descriptor with BOTH sync hooks (the built-in ones only have sync_before_pack)
    def sync_after_unpack(self, instance):
        setattr(instance, self.iam_enabled_attr_name, True)

"""


def outcome(fn):
    try:
        return ('ok', fn())
    except Exception as e:     # noqa
        if type(e).__name__ == 'PacketError':
            # phase flag and the stack of (offset, name, class) entries, innermost first
            return ('raise', 'PacketError', bool(e.was_error_found_in_unpacking_phase), [(x[0], x[1], 'D' if x[2] in ('Gen', 'Ref0') else x[2]) for x in e.fields_stack])
        return ('raise', type(e).__name__)


def same_outcome(a, b, cls):
    """generic outcome a vs generated outcome b: equal, or both PacketError with the same phase and the same stack except that
    the innermost entry of the generated one may name the run "between 'A' and 'B'" of fixed fields that contains the
    failing field, with the offset where A begins"""
    if a == b:
        return True
    if a[0] != 'raise' or b[0] != 'raise' or a[1] != 'PacketError' or b[1] != 'PacketError':
        return False
    if a[2] != b[2] or len(a[3]) != len(b[3]) or a[3][1:] != b[3][1:]:
        return False
    (og, ng, cg), (oh, nh, ch) = a[3][0], b[3][0]
    if cg != ch or not (isinstance(nh, str) and nh.startswith("between '")):
        return False
    import struct
    table = [(n, f) for n, f, _, _ in cls.get_fields()]
    names = [n for n, _ in table]
    try:
        first, last = nh[len("between '"):-1].split("' and '")
        ia, ib, i_f = names.index(first), names.index(last), names.index(ng)
    except ValueError:
        return False
    if not (ia <= i_f <= ib) or any(not getattr(f, 'struct_code', None) for _, f in table[ia:ib + 1]):
        return False
    delta = sum(struct.calcsize('>' + f.struct_code) for _, f in table[ia:i_f])
    return oh == og - delta


def view(p, cls):
    out = []
    for n, _, _, _ in cls.get_fields():
        v = getattr(p, n, None)
        if hasattr(v, 'get_fields'):
            v = view(v, type(v))
        out.append((n, repr(v)))
    return out


def main():
    decl = json.loads(sys.argv[1])
    seed = int(sys.argv[2]) if len(sys.argv) > 2 else 0
    budget = int(sys.argv[3]) if len(sys.argv) > 3 else 400
    work = tempfile.mkdtemp(prefix='pyvc_tvreplay_')
    cwd = os.getcwd()
    try:
        os.chdir(work)
        sys.path.insert(0, work)
        src = [HEADER]
        for name, opts in (('Gen', decl['options']), ('Ref0', {'generate_for_pack': False, 'generate_for_unpack': False})):
            o = dict(decl['options'])
            o.update(opts)
            src.append('class %s(Packet):' % name)
            src.append('    __bisturi__ = %r' % (o,))
            src += ['    ' + l for l in decl['body']]
            src.append('')
        open('tvreplay_decl.py', 'w').write('\n'.join(src))
        import importlib
        mod = importlib.import_module('tvreplay_decl')
        Gen, Ref0 = mod.Gen, mod.Ref0
        rnd = random.Random(seed)
        res = dict(reproduced=False)
        for _ in range(budget):
            raw = bytes(rnd.choice([0, 1, 2, 10, 0x41, 0x7f, 0x80, 0xff, rnd.randrange(256)]) for _ in range(rnd.randrange(0, 24)))
            off = rnd.choice([0, 0, 0, 1, 2])
            a = outcome(lambda: (lambda p: (view(p, Ref0),))(Ref0.unpack(raw, off)))
            b = outcome(lambda: (lambda p: (view(p, Gen),))(Gen.unpack(raw, off)))
            if not same_outcome(a, b, Gen):
                res = dict(reproduced=True, direction='unpack', input=dict(raw=raw.hex(), offset=off), generic=repr(a), generated=repr(b))
                break
            if a[0] == 'ok':
                # pack what the generic class parsed, through both classes (values copied field by field)
                pg = Ref0.unpack(raw, off)
                pn = Gen.unpack(raw, off)
                # perturb one integer-like field to reach the range checks of pack
                names = [n for n, _, _, _ in Ref0.get_fields() if isinstance(getattr(pg, n, None), int)]
                if names and rnd.random() < 0.5:
                    n = rnd.choice(names)
                    v = rnd.choice([-1, 0, 255, 256, 65535, 65536, -32769, 1 << 31, 1 << 32, 1 << 64, -(1 << 63) - 1])
                    setattr(pg, n, v)
                    setattr(pn, n, v)
                a2 = outcome(lambda: pg.pack().hex())
                b2 = outcome(lambda: pn.pack().hex())
                if not same_outcome(a2, b2, Gen):
                    res = dict(reproduced=True, direction='pack', input=dict(parsed_from=raw.hex(), offset=off, values=view(pg, Ref0)),
                               generic=repr(a2), generated=repr(b2))
                    break
        print(json.dumps(res))
    finally:
        os.chdir(cwd)
        shutil.rmtree(work, ignore_errors=True)


if __name__ == '__main__':
    main()
