"""Native differential replay for C03: for one declaration (body lines + options) define the class twice with the
REAL builder - once with the given options (generated code) and once with generation switched off (generic loop) -
and search seeded random inputs for one on which the two disagree (value, output bytes, or exception class).

usage (under /venv/bin/python, PYTHONPATH=<repo>): tv_replay.py <json: {"body": [...], "options": {...}}> [seed] [budget]
prints one JSON object {reproduced: bool, direction, input, generic, generated}"""
import json, os, random, sys, tempfile, shutil

HEADER = """from bisturi.packet import Packet
from bisturi.field import Int, Data, Bits, Ref, Em
from bisturi.descriptor import Auto, AutoLength

class Inner(Packet):
    __bisturi__ = {'generate_for_pack': False, 'generate_for_unpack': False}
    p = Int(1)
    q = Int(2)


class Both(AutoLength):
    # a descriptor with BOTH sync hooks (the built-in ones only have sync_before_pack)
    def sync_after_unpack(self, instance):
        setattr(instance, self.iam_enabled_attr_name, True)

"""


def outcome(fn):
    try:
        return ('ok', fn())
    except Exception as e:     # noqa
        return ('raise', type(e).__name__)


def view(p, cls):
    out = []
    for n, _, _, _ in cls.get_fields():
        v = getattr(p, n, None)
        if hasattr(v, 'get_fields'):
            v = view(v, type(v))
        out.append((n, repr(v)))
    return out


def main():
    decl = json.loads(sys.argv[1])
    seed = int(sys.argv[2]) if len(sys.argv) > 2 else 0
    budget = int(sys.argv[3]) if len(sys.argv) > 3 else 400
    work = tempfile.mkdtemp(prefix='pyvc_tvreplay_')
    cwd = os.getcwd()
    try:
        os.chdir(work)
        sys.path.insert(0, work)
        src = [HEADER]
        for name, opts in (('Gen', decl['options']), ('Ref0', {'generate_for_pack': False, 'generate_for_unpack': False})):
            o = dict(decl['options'])
            o.update(opts)
            src.append('class %s(Packet):' % name)
            src.append('    __bisturi__ = %r' % (o,))
            src += ['    ' + l for l in decl['body']]
            src.append('')
        open('tvreplay_decl.py', 'w').write('\n'.join(src))
        import importlib
        mod = importlib.import_module('tvreplay_decl')
        Gen, Ref0 = mod.Gen, mod.Ref0
        rnd = random.Random(seed)
        res = dict(reproduced=False)
        for _ in range(budget):
            raw = bytes(rnd.choice([0, 1, 2, 10, 0x41, 0x7f, 0x80, 0xff, rnd.randrange(256)]) for _ in range(rnd.randrange(0, 24)))
            off = rnd.choice([0, 0, 0, 1, 2])
            a = outcome(lambda: (lambda p: (view(p, Ref0),))(Ref0.unpack(raw, off)))
            b = outcome(lambda: (lambda p: (view(p, Gen),))(Gen.unpack(raw, off)))
            if a != b:
                res = dict(reproduced=True, direction='unpack', input=dict(raw=raw.hex(), offset=off), generic=repr(a), generated=repr(b))
                break
            if a[0] == 'ok':
                # pack what the generic class parsed, through both classes (values copied field by field)
                pg = Ref0.unpack(raw, off)
                pn = Gen.unpack(raw, off)
                # perturb one integer-like field to reach the range checks of pack
                names = [n for n, _, _, _ in Ref0.get_fields() if isinstance(getattr(pg, n, None), int)]
                if names and rnd.random() < 0.5:
                    n = rnd.choice(names)
                    v = rnd.choice([-1, 0, 255, 256, 65535, 65536, -32769, 1 << 31, 1 << 32, 1 << 64, -(1 << 63) - 1])
                    setattr(pg, n, v)
                    setattr(pn, n, v)
                a2 = outcome(lambda: pg.pack().hex())
                b2 = outcome(lambda: pn.pack().hex())
                if a2 != b2:
                    res = dict(reproduced=True, direction='pack', input=dict(parsed_from=raw.hex(), offset=off, values=view(pg, Ref0)),
                               generic=repr(a2), generated=repr(b2))
                    break
        print(json.dumps(res))
    finally:
        os.chdir(cwd)
        shutil.rmtree(work, ignore_errors=True)


if __name__ == '__main__':
    main()
