"""Bounded native checks for C18 (never counted as proof).

A. the denotation ASSUMED for the piece shapes (contracts/lemmas.py _rx_theory) against CPython's re;
B. Bits.pack_regexp, which is outside the VC generator (string manipulation over '0', '1', 'x'): EXHAUSTIVE over all
   3^8 per-byte patterns (eight one-bit fields, each 0, 1 or Any): the expression matches exactly the bytes that agree
   with the fixed bits; plus seeded multi-width runs;
C. end to end: seeded random flat declarations over Int / Data / Bits, random patterns (any subset of the fields left as
   Any()), random corpora: filter() with and without the regexp pre-filter return the same packets, and building the
   expression does not raise.  Excluded: consume_delimiter=False (finding K18a), constrained Any(startswith=...)
   (finding K18b), regex delimiters not kept in the value (excluded by the statement).

usage: /venv/bin/python probe_c18.py <repo> [seed] [budget]   prints one JSON object {facts, scenarios, failures}"""
import itertools, json, os, random, re, shutil, subprocess, sys, tempfile

CHILD = r'''
import itertools, json, random, re, sys
from bisturi.packet import Packet
from bisturi.field import Int, Data, Bits
from bisturi.pattern_matching import Any, anything_like, filter as pfilter
seed, budget = int(sys.argv[1]), int(sys.argv[2])
rnd = random.Random(seed)
out = dict(facts={}, scenarios=[], failures=[])

# ---------------------------------------------------------------- A: denotation of the piece shapes
def full(rx, s):
    return re.fullmatch(b'(?s)' + rx, s) is not None
samples = [bytes([b]) for b in range(256)] + [b'', b'a.b', b'\\', b'[x]', b'^$', b'a\nb', b'(?:', b'{3}', b'*+?', b'ab\n', b'\x00\xff']
ok = all(full(re.escape(x), s) == (s == x) for x in samples for s in rnd.sample(samples, 12) + [x])
out['facts']['escape_is_literal'] = ok
out['facts']['dot_n_is_length'] = all(full(('.{%i}' % n).encode('ascii'), s) == (len(s) == n) for n in range(0, 6) for s in samples)
out['facts']['hole_is_length'] = all(full(('(?:.{%i})' % n).encode('ascii'), s) == (len(s) == n) for n in range(1, 6) for s in samples)
out['facts']['dotstar_is_everything'] = all(full(b'.*', s) for s in samples)
pieces = [re.escape(x) for x in samples[250:]] + [b'.{1}', b'.{2}', b'.*', b'.*' + re.escape(b'\n')]
ok = True
for a, b in itertools.product(pieces, repeat=2):
    for s, t in itertools.product(samples[256:], repeat=2):
        if full(a, s) and full(b, t) and not full(a + b, s + t):
            ok = False
out['facts']['concatenation'] = ok

# ---------------------------------------------------------------- B: Bits.pack_regexp
class Byte8(Packet):
    b7 = Bits(1); b6 = Bits(1); b5 = Bits(1); b4 = Bits(1); b3 = Bits(1); b2 = Bits(1); b1 = Bits(1); b0 = Bits(1)
names = ['b7', 'b6', 'b5', 'b4', 'b3', 'b2', 'b1', 'b0']
bad = []
for pat in itertools.product((0, 1, None), repeat=8):
    p = Byte8()
    for nme, v in zip(names, pat):
        setattr(p, nme, Any() if v is None else v)
    try:
        rx = p.as_regular_expression()
    except Exception as e:
        bad.append(dict(pattern=pat, error=repr(e))); continue
    for byte in range(256):
        agrees = all(v is None or ((byte >> (7 - i)) & 1) == v for i, v in enumerate(pat))
        if (rx.match(bytes([byte])) is not None) != agrees:
            bad.append(dict(pattern=pat, byte=byte, matched=not agrees)); break
    if len(bad) > 5:
        break
out['scenarios'].append(dict(history='Bits.pack_regexp exhaustive over the 3^8 per-byte patterns x 256 bytes', ok=not bad))
if bad:
    out['failures'].append(dict(part='B', history='Bits.pack_regexp per-byte pattern', detail=bad[:3]))

class Wide(Packet):
    a = Bits(3); b = Bits(5); c = Bits(4); d = Bits(12)
bad = []
for _ in range(budget):
    vals = dict(a=rnd.randrange(8), b=rnd.randrange(32), c=rnd.randrange(16), d=rnd.randrange(4096))
    p = Wide(**vals)
    anys = [n for n in vals if rnd.random() < 0.5]
    for n in anys:
        setattr(p, n, Any())
    rx = p.as_regular_expression()
    for _ in range(20):
        q = dict(vals)
        for n in vals:
            if rnd.random() < 0.4:
                q[n] = rnd.randrange({'a': 8, 'b': 32, 'c': 16, 'd': 4096}[n])
        raw = Wide(**q).pack()
        equal = all(n in anys or q[n] == vals[n] for n in vals)
        if equal and rx.match(raw) is None:
            bad.append(dict(pattern={n: ('Any' if n in anys else vals[n]) for n in vals}, raw=raw.hex()))
out['scenarios'].append(dict(history='Bits runs of mixed widths: %d seeded patterns' % budget, ok=not bad))
if bad:
    out['failures'].append(dict(part='B', history='Bits multi-width run', detail=bad[:3]))

# ---------------------------------------------------------------- C: end to end
FIELDS = [
    ('Int(1)', lambda: rnd.randrange(256)), ('Int(2)', lambda: rnd.randrange(65536)), ('Int(3)', lambda: rnd.randrange(1 << 24)),
    ('Int(2, signed=True)', lambda: rnd.randrange(-32768, 32768)), ('Int(4, endianness="little")', lambda: rnd.randrange(1 << 32)),
    ('Data(2)', lambda: bytes(rnd.choice(b'ab.\\[\n$^*') for _ in range(2))),
    ('Data(until_marker=b"\\n")', lambda: bytes(rnd.choice(b'ab.\\[$^*') for _ in range(rnd.randrange(4)))),
    ('Data(until_marker=b";;", include_delimiter=True)', lambda: bytes(rnd.choice(b'ab.;') for _ in range(rnd.randrange(3))).replace(b';;', b';a') + b';;'),
]
bad = []
ndecl = 0
for di in range(max(8, budget)):
    k = rnd.randrange(1, 5)
    chosen = [rnd.choice(FIELDS) for _ in range(k)]
    body = ['    f%d = %s' % (i, c[0]) for i, c in enumerate(chosen)]
    sized = rnd.random() < 0.5
    if sized:   # a byte string sized by an earlier integer field
        body = ['    n = Int(1)'] + body + ['    d = Data(n)']
    src = 'class D%d(Packet):\n%s\n' % (di, '\n'.join(body))
    ns = dict(Packet=Packet, Int=Int, Data=Data, Bits=Bits)
    try:
        exec(src, ns)
    except Exception as e:
        continue
    cls = ns['D%d' % di]
    ndecl += 1
    def sample():
        vals = {'f%d' % i: c[1]() for i, c in enumerate(chosen)}
        if sized:
            vals['d'] = bytes(rnd.choice(b'ab\n.') for _ in range(rnd.randrange(4)))
            vals['n'] = len(vals['d'])
        return vals
    for _ in range(6):
        base = sample()
        pattern = cls(**base)
        anys = [n for n in base if rnd.random() < 0.5]
        for n in anys:
            setattr(pattern, n, Any())
        corpus = []
        for _ in range(12):
            v = dict(base)
            for n in list(v):
                if rnd.random() < 0.3:
                    v.update({n: sample()[n]})
            if sized:
                v['n'] = len(v['d'])
            try:
                corpus.append(cls(**v).pack() + bytes(rnd.randrange(256) for _ in range(rnd.randrange(3))))
            except Exception:
                pass
        try:
            with_rx = [p.pack() for p in pfilter(pattern, corpus)]
            without = [p.pack() for p in pfilter(pattern, corpus, filter_with_regexp_first=False)]
        except Exception as e:
            bad.append(dict(declaration=src, pattern={n: ('Any' if n in anys else repr(base[n])) for n in base}, error=repr(e)))
            continue
        if with_rx != without:
            bad.append(dict(declaration=src, pattern={n: ('Any' if n in anys else repr(base[n])) for n in base},
                            rx=pattern.as_regular_expression().pattern.decode('latin1'),
                            lost=[r.hex() for r in without if r not in with_rx][:3]))
out['scenarios'].append(dict(history='filter with == without pre-filter: %d seeded declarations x 6 patterns x 12 strings' % ndecl, ok=not bad))
if bad:
    out['failures'].append(dict(part='C', history='filter() loses a matching packet or building the expression fails', detail=bad[:3]))
print(json.dumps(out, default=repr))
'''


def main():
    repo = sys.argv[1]
    seed = int(sys.argv[2]) if len(sys.argv) > 2 else 0
    budget = int(sys.argv[3]) if len(sys.argv) > 3 else 60
    work = tempfile.mkdtemp(prefix='pyvc_c18_')
    try:
        path = os.path.join(work, 'probe_child.py')
        open(path, 'w').write(CHILD)
        env = dict(os.environ, PYTHONPATH=repo, PYTHONDONTWRITEBYTECODE='1')
        p = subprocess.run([sys.executable, path, str(seed), str(budget)], cwd=work, env=env, capture_output=True, text=True, timeout=1500)
        if p.returncode != 0:
            print(json.dumps(dict(facts={}, scenarios=[], failures=[dict(part='A', error='probe crashed: ' + p.stderr[-1500:])])))
        else:
            print(p.stdout.strip().splitlines()[-1])
    finally:
        shutil.rmtree(work, ignore_errors=True)


if __name__ == '__main__':
    main()
