"""Exec-mode evaluation (CPS), statements, calls by contract, loops, function driver."""
import ast
import z3


def safe_forall(vs, body, patterns=()):
    try:
        return z3.ForAll(vs, body, patterns=list(patterns))
    except z3.Z3Exception:
        return z3.ForAll(vs, body)


def safe_exists(vs, body, patterns=()):
    try:
        return z3.Exists(vs, body, patterns=list(patterns))
    except z3.Z3Exception:
        return z3.Exists(vs, body)

from . import theory as T
from .values import *
from .specev import SpecEval, merge, bytes_const, length_of
from .extract import find_function, strip_docstring
from .envmodel import VEnvObj


def install(Engine):
    for k, v in list(globals().items()):
        if k.startswith('m_'):
            setattr(Engine, k[2:], v)
    from . import envmodel
    envmodel.install(Engine)
    orig_init = Engine.__init__

    def __init__(self, *a, **kw):
        orig_init(self, *a, **kw)
        self._facts_added = set()
        self.loop_counter = 0
        self.warnings = []
        self.used_assumptions = set()
    Engine.__init__ = __init__


def fresh(name, sort):
    from .symex import fresh as f
    return f(name, sort)


def zs(e):
    return z3.simplify(e)


def is_false(e):
    return z3.is_false(zs(e))


def is_true(e):
    return z3.is_true(zs(e))


# ====================================================================== raising
def m_do_raise(self, st, exc):
    st.ctx.on_raise(st, exc)


def m_with_raises(self, st, raises, k):
    """Fork one exceptional path per (cond, cls) and continue the normal path under the negations."""
    for cond, cls in raises:
        c = zs(cond)
        if z3.is_false(c) or not self.feasible(st, c):
            if not z3.is_false(c):
                st.assume(z3.Not(c))
            continue
        s2 = st.fork('raise:' + cls)
        s2.assume(c)
        self.do_raise(s2, VExc(cls))
        if z3.is_true(c):
            return
        st.assume(z3.Not(c))
        if not self.feasible(st, z3.BoolVal(True)):
            return      # the operation always raises on this path
    k(st)


def m_branch(self, st, cond, k_true, k_false, label=''):
    c = zs(cond)
    if z3.is_true(c):
        return k_true(st)
    if z3.is_false(c):
        return k_false(st)
    if not self.feasible(st, c):
        st.assume(z3.Not(c))
        return k_false(st)
    if not self.feasible(st, z3.Not(c)):
        st.assume(c)
        return k_true(st)
    s1 = st.fork(label + 'T')
    s1.assume(c)
    k_true(s1)
    s2 = st.fork(label + 'F')
    s2.assume(z3.Not(c))
    k_false(s2)


# ====================================================================== expressions (exec mode, CPS)
def m_ev(self, st, n, k):
    m = getattr(self, 'x_' + type(n).__name__, None)
    if m is None:
        raise Untranslated('expression ' + type(n).__name__)
    return m(st, n, k)


def m_ev_list(self, st, nodes, k, acc=None):
    acc = acc or []
    if not nodes:
        return k(st, acc)
    return self.ev(st, nodes[0], lambda st, v: self.ev_list(st, nodes[1:], k, acc + [v]))


def m_x_Constant(self, st, n, k):
    return k(st, SpecEval(self, st, {}).ev_Constant(n))


BUILTIN_NAMES = {'map', 'StructUnpack', 'StructPack', 'StructUnpackFrom', 'len', 'isinstance', 'getattr', 'setattr', 'hasattr', 'callable', 'bool', 'int',
                 'list', 'reversed', 'range', 'sorted', 'zip', 'bytes', 'str', 'repr', 'type',
                 'max', 'min', 'bisect_right', 'bisect_left', 'tuple', 'dict', 'set', 'sum', 'all', 'any',
                 'bin', 'ord', 'breakpoint', 'open', 'SourceFileLoader', 'delattr'}


def m_x_Name(self, st, n, k):
    if n.id in st.loc:
        v = st.loc[n.id]
        if v is None:
            raise Untranslated('use of havoced variable %s of unknown kind' % n.id)
        return k(st, v)
    if n.id in ('True', 'False'):
        return k(st, VBool(n.id == 'True'))
    if n.id in self.classes or n.id in EXC_NAMES or n.id in self.class_aliases:
        return k(st, VFunc('class', self.class_aliases.get(n.id, n.id)))
    if n.id in BUILTIN_NAMES:
        return k(st, VFunc('builtin', n.id))
    if n.id in self.module_funcs:
        return k(st, VFunc('contract', self.module_funcs[n.id], None))
    if n.id in self.globals:
        return k(st, self.globals[n.id])
    if n.id in getattr(self, 'prefix_locals', ()):
        # a local computed by the dropped prefix of a partially verified function that the contract does not list as
        # an input: nothing is known about it
        st.loc[n.id] = VDyn(fresh('prefix_local_' + n.id, T.Val))
        return k(st, st.loc[n.id])
    if self.cur is not None and ':' in self.cur.target:
        # a module-level helper function of the same module that has no contract of its own: its real body is
        # executed in place (it is part of the code of the function under verification)
        q = '%s:%s' % (self.cur.target.split(':')[0], n.id)
        try:
            node, _, _ = find_function(q)
        except KeyError:
            node = None
        if isinstance(node, ast.FunctionDef):
            return k(st, VFunc('helper', q))
    raise Untranslated('name %s' % n.id)


DYN_METHODS = {'to_bytes', 'search', 'encode', 'decode', 'items', 'get', 'append', 'pack_impl', 'unpack_impl', 'clone', 'as_prototype', 'find', 'ljust', 'rjust', 'splitlines'}

EXC_NAMES = {'Exception', 'ValueError', 'TypeError', 'KeyError', 'IndexError', 'AttributeError',
             'NotImplementedError', 'AssertionError', 'SyntaxError', 'ImportError', 'OverflowError',
             'ZeroDivisionError', 'RuntimeError', 'StopIteration', 'LookupError', 'ArithmeticError',
             'BaseException', 'OSError', 'FileNotFoundError', 'FileExistsError', 'UnicodeDecodeError'}


def m_x_Attribute(self, st, n, k):
    # module-qualified builtins
    if isinstance(n.value, ast.Name) and n.value.id not in st.loc:
        q = '%s.%s' % (n.value.id, n.attr)
        if q in ('int.from_bytes', 'struct.Struct', 'struct.error', 're.escape', 'copy.deepcopy', 'sys.exc_info', 'copy.copy',
                 'traceback.format_exception',
                 'Bits.ByteBoundaryError', 'sys.byteorder', 'operator.truth', 're.compile',
                 'pickle.dumps', 'pickle.loads', 'Exception.__init__', 're.DEBUG', 'os.path',
                 'hashlib.sha1', 'inspect.getfile', 'os.remove', 'os.makedirs', 'sys.dont_write_bytecode',
                 'os.replace', 'tempfile.NamedTemporaryFile'):
            if q == 'sys.dont_write_bytecode':
                if 'env.dont_write_bytecode' not in st.ghost:
                    raise Untranslated('sys.dont_write_bytecode outside an environment contract')
                return k(st, st.ghost['env.dont_write_bytecode'])
            if q == 'sys.byteorder':
                return k(st, VStr(z3.String('sys_byteorder')))
            if q == 're.DEBUG':
                return k(st, VInt(z3.Int('re_DEBUG')))
            if q == 'struct.error':
                return k(st, VFunc('class', 'StructError'))
            if q == 'Bits.ByteBoundaryError':
                return k(st, VFunc('class', 'ByteBoundaryError'))
            return k(st, VFunc('builtin', q))
        if n.value.id in self.classes:
            # Class.method(self, ...) explicit call
            c = self.method_contract(n.value.id, n.attr)
            if c is not None:
                return k(st, VFunc('contract', c.name, None))
            raise Untranslated('no contract for %s.%s' % (n.value.id, n.attr))

    def got(st, base):
        if isinstance(base, VFunc) and base.tag == 'builtin' and base.payload[0] == 'os.path':
            return k(st, VFunc('builtin', 'os.path.' + n.attr))
        if isinstance(base, VEnvObj):
            if base.cls == 'File' and n.attr == 'name':
                return k(st, base.get(st).items[3])
            return k(st, VFunc('envmeth', base, n.attr))
        if isinstance(base, VRef) and base.cls == 'Module':
            # an attribute of a module object: a name of its namespace
            nm = z3.StringVal(n.attr)
            return self.with_raises(st, [(z3.Not(self.slot_has(st, base.z, nm)), 'AttributeError')],
                                    lambda st: k(st, VDyn(self.slot_get(st, base.z, nm))))
        if isinstance(base, VRef):
            owner, kind = self.attr_kind(base.cls, n.attr)
            if kind is not None:
                key = '%s.%s?' % (owner, n.attr)
                if key in st.heap:
                    isset = z3.Select(st.heap[key], base.z)
                    return self.with_raises(st, [(z3.Not(isset), 'AttributeError')],
                                            lambda st: k(st, self.read_attr(st, base, n.attr)))
                v = self.read_attr(st, base, n.attr)
                if isinstance(v, VDyn) and 'self' in self.fn_env and base.z.eq(self.fn_env['self'].z):
                    v.origin = n.attr
                return k(st, v)
            if base.cls == 'Field' and n.attr in ('pack', 'unpack', 'init', 'pack_regexp', '_compile'):
                return k(st, VFunc('role', 'FIELD.' + n.attr, base.z))
            c = self.method_contract(base.cls, n.attr)
            if c is not None:
                return k(st, VFunc('contract', c.name, base))
            if n.attr == '__class__':
                return k(st, VClassSym(self.class_of(base.z), base.cls))
            if n.attr in ('get_fields', 'get_sync_before_pack_methods', 'get_sync_after_unpack_methods') \
                    and self.is_subclass(base.cls, 'Packet'):
                return k(st, VFunc('tablefn', n.attr, self.class_of(base.z)))
            if base.cls == 'Packet' and not n.attr.startswith('__'):
                # a field value of a packet instance: a slot
                nm = z3.StringVal(n.attr)
                return self.with_raises(st, [(z3.Not(self.slot_has(st, base.z, nm)), 'AttributeError')],
                                        lambda st: k(st, VDyn(self.slot_get(st, base.z, nm))))
            if not n.attr.startswith('__') and not any(self.method_contract(cc, n.attr) is not None for cc in self.classes):
                # an attribute the schema does not declare (and that is no method under contract): the object's
                # dynamic attribute map; AttributeError when it was never set
                nm = z3.StringVal('.' + n.attr)
                return self.with_raises(st, [(z3.Not(self.slot_has(st, base.z, nm)), 'AttributeError')],
                                        lambda st: k(st, VDyn(self.slot_get(st, base.z, nm))))
            raise Untranslated('attribute %s of %s' % (n.attr, base.cls))
        if isinstance(base, VClassSym):
            if n.attr == '__name__':
                return k(st, VStr(z3.Function('class_name', T.I, T.S)(base.z)))
            if n.attr in ('get_fields', 'get_sync_before_pack_methods', 'get_sync_after_unpack_methods'):
                return k(st, VFunc('tablefn', n.attr, base.z))
            if n.attr == 'unpack':
                return k(st, VFunc('contract', 'packet:Packet.unpack', base))
            raise Untranslated('attribute %s of a class object' % n.attr)
        if isinstance(base, VExc) and base.ref is not None:
            return got(st, VRef(base.ref, 'PacketError'))
        if isinstance(base, VDyn) and n.attr == 'pattern':
            if 'regex' not in self.axiom_sets:
                self.axiom_sets.append('regex')
            return self.with_raises(st, [(z3.Not(self.is_regex(base.z)), 'AttributeError')],
                                    lambda st: k(st, VBytes(T.rx_pattern(T.Val.oval(base.z)))))
        if isinstance(base, VDyn) and n.attr in ('sync_before_pack', 'sync_after_unpack'):
            # a hook of a descriptor object taken as a VALUE (obj.sync_before_pack): the bound method of that object,
            # AttributeError when the object has no such method
            has = z3.Function('has_method', T.Val, T.S, T.B)(base.z, z3.StringVal(n.attr))
            bm = z3.Function('bound_method', T.Val, T.S, T.I)(base.z, z3.StringVal(n.attr))
            return self.with_raises(st, [(z3.Not(has), 'AttributeError')], lambda st: k(st, VDyn(T.Val.VF(bm))))
        if isinstance(base, VDyn) and n.attr not in DYN_METHODS:
            owners = [c for c in self.classes if n.attr in self.classes[c].get('attrs', {})]
            roots = [c for c in owners if not any(o != c and self.is_subclass(c, o) for o in owners)]
            if len(roots) != 1:
                raise Untranslated('attribute .%s of a dynamic value (owners %s)' % (n.attr, owners))
            cls = roots[0]
            isobj = z3.And(T.Val.is_VR(base.z), self.inst_of(T.Val.rval(base.z), cls))
            ref = VRef(T.Val.rval(base.z), cls)
            return self.with_raises(st, [(z3.Not(isobj), 'AttributeError')],
                                    lambda st: k(st, self.read_attr(st, ref, n.attr)))
        if isinstance(base, (VList, VBytes, VStruct, VRx, VMatch, VHeapDict, VStr, VDyn, VInt, VKw, VSeqAbs, VConf, VDictLit)):
            return k(st, VFunc('bound', base, n.attr))
        raise Untranslated('attribute .%s of %s' % (n.attr, base.kind))
    return self.ev(st, n.value, got)


def m_class_of(self, r):
    return z3.Function('class_of', T.I, T.I)(r)


def m_field_table(self, clsid):
    """get_fields() of a packet class: an immutable table (name, field, field.pack, field.unpack);
    well-formedness of the table (WFClass, DESIGN.md section 7) is assumed."""
    n = z3.Function('ft_len', T.I, T.I)(clsid)
    nm = z3.Function('ft_name', T.I, T.I, T.S)
    fl = z3.Function('ft_field', T.I, T.I, T.I)
    key = ('ft', str(clsid))
    if key not in self._facts_added:
        self._facts_added.add(key)
        i = z3.Int('i!ft')
        self.extra_hyps.append(n >= 0)
        self.extra_hyps.append(safe_forall([i], z3.Implies(z3.And(0 <= i, i < n),
                                                        z3.And(self.inst_of(fl(clsid, i), 'Field'), fl(clsid, i) >= 0)),
                                           patterns=[fl(clsid, i)]))
        self.used_assumptions.add('WFClass: get_fields() lists (name, field, field.pack, field.unpack) for compiled fields '
                                  'allocated before the call; field.field_name == name (assumed, metaclass pipeline not under contract)')
    def elem(i):
        f = VRef(fl(clsid, i), 'Field')
        return VTuple([VStr(nm(clsid, i)), f, VFunc('role', 'FIELD.pack', f.z), VFunc('role', 'FIELD.unpack', f.z)])
    return VSeqAbs(n, elem, 'fieldtable')


def m_sync_table(self, clsid, which):
    n = z3.Function('sync_len_' + which, T.I, T.I)(clsid)
    fn = z3.Function('sync_fn_' + which, T.I, T.I, T.I)
    key = ('sync', which, str(clsid))
    if key not in self._facts_added:
        self._facts_added.add(key)
        self.extra_hyps.append(n >= 0)
    return VSeqAbs(n, lambda i: VFunc('role', 'SYNC.' + which, fn(clsid, i)), 'synctable')


def m_x_BoolOp(self, st, n, k):
    # First try a non-forking evaluation: if no operand can raise or has effects and all are
    # booleans, `a and b` / `a or b` is the z3 conjunction / disjunction.
    trial = st.fork()
    flag, results = [], []
    n_obl = len(self.obligations)
    heap0 = dict(st.heap)
    trial.ctx = Ctx(lambda s, v: flag.append('ret'), lambda s, e: flag.append('raise'))
    try:
        self.ev_list(trial, list(n.values), lambda s, vs: results.append((s, vs)))
    except Untranslated:
        flag.append('untranslated')
    if not flag and len(results) == 1 and len(self.obligations) == n_obl and \
            all(isinstance(v, VBool) for v in results[0][1]) and \
            all(results[0][0].heap[key] is heap0[key] for key in heap0) and len(results[0][0].pc) == len(st.pc):
        vs = [v.z for v in results[0][1]]
        return k(st, VBool(z3.And(vs) if isinstance(n.op, ast.And) else z3.Or(vs)))
    del self.obligations[n_obl:]

    # python semantics: returns one of the operands; we only support use in boolean position
    # or with operands of one kind.
    def go(st, i, last):
        if i == len(n.values):
            return k(st, last)

        def got(st, v):
            if i == len(n.values) - 1:
                return k(st, v)
            t = self.truth(st, v)
            if isinstance(n.op, ast.And):
                self.branch(st, t, lambda st: go(st, i + 1, v), lambda st: k(st, v), 'and')
            else:
                self.branch(st, t, lambda st: k(st, v), lambda st: go(st, i + 1, v), 'or')
        return self.ev(st, n.values[i], got)
    return go(st, 0, None)


def m_x_UnaryOp(self, st, n, k):
    def got(st, v):
        if isinstance(n.op, ast.Not):
            return k(st, VBool(z3.Not(self.truth(st, v))))
        x, c = self.as_int(v)
        def cont(st):
            if isinstance(n.op, ast.USub):
                return k(st, VInt(-x))
            if isinstance(n.op, ast.Invert):
                return k(st, VInt(-x - 1))
            if isinstance(n.op, ast.UAdd):
                return k(st, VInt(x))
            raise Untranslated('unary op')
        return self.with_raises(st, [(c, 'TypeError')], cont)
    return self.ev(st, n.operand, got)


def m_x_BinOp(self, st, n, k):
    def got(st, vs):
        v, raises = self.binop(st, n.op, vs[0], vs[1])
        return self.with_raises(st, raises, lambda st: k(st, v))
    return self.ev_list(st, [n.left, n.right], got)


def m_x_Compare(self, st, n, k):
    def got(st, vs):
        out = []
        raises = []
        for op, a, b in zip(n.ops, vs, vs[1:]):
            v, r = self.compare(st, op, a, b)
            out.append(v.z)
            raises += r
        res = VBool(z3.And(out) if len(out) > 1 else out[0])
        return self.with_raises(st, raises, lambda st: k(st, res))
    return self.ev_list(st, [n.left] + list(n.comparators), got)


def m_x_IfExp(self, st, n, k):
    def got(st, c):
        t = self.truth(st, c)
        self.branch(st, t, lambda st: self.ev(st, n.body, k), lambda st: self.ev(st, n.orelse, k), 'ifexp')
    return self.ev(st, n.test, got)


def m_x_Tuple(self, st, n, k):
    return self.ev_list(st, n.elts, lambda st, vs: k(st, VTuple(vs)))


def m_x_List(self, st, n, k):
    return self.ev_list(st, n.elts, lambda st, vs: k(st, self.new_list(st, vs)))


def m_x_Dict(self, st, n, k):
    keys = []
    for kk in n.keys:
        if not isinstance(kk, ast.Constant):
            raise Untranslated('dict literal with non-constant key')
        keys.append(kk.value)
    if not keys:
        return k(st, VDictLit([]))
    return self.ev_list(st, n.values, lambda st, vs: k(st, VDictLit(list(zip(keys, vs)))))


def m_x_JoinedStr(self, st, n, k):
    # the embedded expressions are evaluated (they may raise); str()/format of a value is opaque and total
    vals = [v.value for v in n.values if isinstance(v, ast.FormattedValue)]
    return self.ev_list(st, vals, lambda st, vs: k(st, VStr(fresh('fstr', T.S))))


def m_x_Subscript(self, st, n, k):
    def got_base(st, base):
        if isinstance(n.slice, ast.Slice):
            parts = [n.slice.lower, n.slice.upper, n.slice.step]
            present = [p for p in parts if p is not None]

            def got(st, vs):
                it = iter(vs)
                lo = next(it) if parts[0] is not None else None
                hi = next(it) if parts[1] is not None else None
                step = next(it) if parts[2] is not None else None

                def go(st, lo, hi, step):
                    # a bound that is None is an absent bound (x[a:None] is x[a:])
                    bounds = [lo, hi, step]
                    for i_, b_ in enumerate(bounds):
                        if isinstance(b_, VNone):
                            bounds[i_] = None
                        elif isinstance(b_, VDyn) and self.feasible(st, T.Val.is_VN(b_.z)):
                            def absent(st, i_=i_):
                                bb = list(bounds)
                                bb[i_] = None
                                return go(st, *bb)

                            def present_(st, i_=i_, b_=b_):
                                bb = list(bounds)
                                bb[i_] = VDyn(b_.z)
                                st.assume(z3.Not(T.Val.is_VN(b_.z)))
                                v, raises = self.subscript(st, base, ('slice', bb[0], bb[1], bb[2]))
                                return self.with_raises(st, raises, lambda st: k(st, v))
                            if all(not (isinstance(x_, VDyn) and x_ is not b_ and self.feasible(st, T.Val.is_VN(x_.z))) for x_ in bounds if x_ is not None):
                                return self.branch(st, T.Val.is_VN(b_.z), absent, present_, 'slice-bound-none')
                    v, raises = self.subscript(st, base, ('slice', bounds[0], bounds[1], bounds[2]))
                    return self.with_raises(st, raises, lambda st: k(st, v))
                return go(st, lo, hi, step)
            return self.ev_list(st, present, got)

        def got_idx(st, idx):
            if isinstance(base, VDictLit):
                return self.dictlit_get(st, base, idx, k)
            v, raises = self.subscript(st, base, idx)
            return self.with_raises(st, raises, lambda st: k(st, v))
        return self.ev(st, n.slice, got_idx)
    return self.ev(st, n.value, got_base)


def m_dictlit_get(self, st, d, idx, k):
    remaining = st
    for key, val in d.items:
        kv = SpecEval(self, st, {}).ev_Constant(ast.Constant(key))
        e = self.py_eq(st, idx, kv)
        c = zs(e)
        if z3.is_false(c):
            continue
        s2 = remaining.fork('key=%r' % (key,))
        s2.assume(c)
        k(s2, val)
        if z3.is_true(c):
            return
        remaining = remaining.fork()
        remaining.assume(z3.Not(c))
    remaining.path.append('keyerror')
    self.do_raise(remaining, VExc('KeyError'))


def m_bm_dictlit_get(self, st, d, pos, kws, k):
    idx = pos[0]
    default = pos[1] if len(pos) > 1 else VNone()
    remaining = st
    for key, val in d.items:
        kv = SpecEval(self, st, {}).ev_Constant(ast.Constant(key))
        e = self.py_eq(st, idx, kv)
        if e is None:
            raise Untranslated('dict.get: key comparison')
        c = zs(e)
        if z3.is_false(c) or not self.feasible(remaining, c):
            continue
        s2 = remaining.fork('key=%r' % (key,))
        s2.assume(c)
        k(s2, val)
        if z3.is_true(c):
            return
        remaining = remaining.fork()
        remaining.assume(z3.Not(c))
    if self.feasible(remaining, z3.BoolVal(True)):
        remaining.path.append('default')
        k(remaining, default)


def m_x_Lambda(self, st, n, k):
    # closures are opaque callables; their behaviour is given by role contracts when called
    return k(st, VFunc('lambda', n, dict(st.loc)))


def m_x_ListComp(self, st, n, k):
    raise Untranslated('list comprehension')


def m_x_DictComp(self, st, n, k):
    """``{key: value for x in (literal, ...) if cond}``: a fixed, small number of iterations, executed item by item
    (complete); keys must evaluate to literals."""
    if len(n.generators) != 1 or not isinstance(n.generators[0].iter, (ast.Tuple, ast.List)) \
            or not isinstance(n.generators[0].target, ast.Name) or len(n.generators[0].iter.elts) > 8:
        raise Untranslated('expression DictComp')
    g = n.generators[0]
    name = g.target.id
    missing = object()

    def run(st, items):
        saved = st.loc.get(name, missing)

        def done(st, acc):
            st.loc = dict(st.loc)
            if saved is missing:
                st.loc.pop(name, None)
            else:
                st.loc[name] = saved
            return k(st, VDictLit(acc))

        def step(st, i, acc):
            if i == len(items):
                return done(st, acc)
            st.loc = dict(st.loc)
            st.loc[name] = items[i]

            def conds(st, j):
                if j == len(g.ifs):
                    def got_key(st, kv):
                        if getattr(kv, 'py', None) is None:
                            raise Untranslated('dict comprehension with a non-literal key')
                        return self.ev(st, n.value, lambda st, vv: step(st, i + 1, acc + [(kv.py, vv)]))
                    return self.ev(st, n.key, got_key)
                return self.ev(st, g.ifs[j], lambda st, c: self.branch(st, self.truth(st, c), lambda st: conds(st, j + 1),
                                                                        lambda st: step(st, i + 1, acc), 'dictcomp%d' % i))
            return conds(st, 0)
        return step(st, 0, [])
    return self.ev_list(st, list(g.iter.elts), run)


# ====================================================================== calls
def m_x_Call(self, st, n, k):
    def got_f(st, f):
        # evaluate arguments
        pos_nodes = []
        star = None
        for a in n.args:
            if isinstance(a, ast.Starred):
                star = a.value
            else:
                pos_nodes.append(a)
        kw_nodes = [(kw.arg, kw.value) for kw in n.keywords]

        def got_args(st, vs):
            pos = vs[:len(pos_nodes)]
            rest = vs[len(pos_nodes):]
            kws = {}
            kwstar = None
            for (name, _), v in zip(kw_nodes, rest):
                if name is None:
                    kwstar = v
                else:
                    kws[name] = v
            starv = rest[len(kw_nodes)] if star is not None else None
            return self.call(st, f, pos, kws, kwstar, starv, k, n)
        return self.ev_list(st, pos_nodes + [v for _, v in kw_nodes] + ([star] if star is not None else []), got_args)
    return self.ev(st, n.func, got_f)


def m_call(self, st, f, pos, kws, kwstar, starv, k, node=None):
    if isinstance(f, VDyn) and starv is not None and not pos and not kws:
        return self.call_apply_seq(st, f, starv, k)
    if isinstance(f, VDyn) and starv is not None:
        # op(pkt, *vargs, **kargs): the extra arguments are passed through unchanged (opaque context)
        if isinstance(starv, VSeqAbs) and starv.tag == 'opaque-varargs':
            return self.call_dyn(st, f, pos, dict(kws, varargs=VInt(starv.n)), kwstar, k)
        raise Untranslated('call with *args of %s' % getattr(starv, 'tag', starv.kind))
    if isinstance(f, VClassSym):
        r = self.alloc(st, f.base)
        obj = VRef(r, f.base)
        st.assume(self.inst_of(r, f.base))
        st.assume(self.class_of(r) == f.z)
        c = self.method_contract(f.base, '__init__')
        if c is None:
            raise Untranslated('no contract for %s.__init__' % f.base)
        return self.call_contract(st, c, [obj] + pos, kws, kwstar, lambda st, _: k(st, obj))
    if not isinstance(f, VFunc):
        if isinstance(f, VDyn):
            return self.call_dyn(st, f, pos, kws, kwstar, k)
        raise Untranslated('call of %s' % f.kind)
    if f.tag == 'builtin':
        return self.call_builtin(st, f.payload[0], pos, kws, kwstar, starv, k)
    if f.tag == 'bound':
        if f.payload[1] in ('pack_impl',):
            return self.bm_dyn_pack_impl(st, f.payload[0], pos, kws, k, kwstar=kwstar)
        return self.call_bound(st, f.payload[0], f.payload[1], pos, kws, k, kwstar=kwstar)
    if f.tag == 'class':
        return self.call_class(st, f.payload[0], pos, kws, kwstar, k)
    if f.tag == 'contract' and getattr(self, 'tv_mode', False) and \
            f.payload[0] in ('fragments:Fragments.append', 'fragments:Fragments.insert'):
        frag = f.payload[1]
        if f.payload[0].endswith('append'):
            return self.tv_frag_insert(st, frag, VInt(z3.Select(st.heap['Fragments.current_offset'], frag.z)), pos[0], k)
        return self.tv_frag_insert(st, frag, pos[0], pos[1], k)
    if f.tag == 'contract' and (starv is not None or isinstance(kwstar, VConf)):
        # g(x, *args, **kargs) with the caller's own opaque *args / **kargs (FragmentsOfRegexps.__init__): the call is
        # translated only as the call g(x), under the call-site obligations that both are empty
        if starv is not None:
            if not (isinstance(starv, VSeqAbs) and starv.tag == 'opaque-varargs'):
                raise Untranslated('call with *args of %s' % getattr(starv, 'tag', starv.kind))
            self.add_obligation(st, 'pre@call', '*args forwarded to %s is empty' % f.payload[0], starv.n == 0, '')
            st.assume(starv.n == 0)
            starv = None
        if isinstance(kwstar, VConf):
            nokw = T.Conf.chas(kwstar.z) == z3.K(T.S, z3.BoolVal(False))
            self.add_obligation(st, 'pre@call', '**kargs forwarded to %s is empty' % f.payload[0], nokw, '')
            st.assume(nokw)
            kwstar = None
    if f.tag == 'contract':
        c = self.contracts[f.payload[0]]
        selfv = f.payload[1]
        if getattr(self, 'tv_mode', False) and c.name in self.tv_inline:
            return self.call_inline(st, c, ([selfv] if selfv is not None else []) + pos, kws, kwstar, k)
        return self.call_contract(st, c, ([selfv] if selfv is not None else []) + pos, kws, kwstar, k)
    if f.tag == 'envmeth':
        return self.env_method(st, f.payload[0], f.payload[1], pos, kws, k)
    if f.tag == 'helper':
        return self.call_helper(st, f.payload[0], pos, kws, kwstar, k)
    if f.tag == 'role':
        return self.call_role(st, f, pos, kws, kwstar, k)
    if f.tag == 'tablefn' and getattr(self, 'tv_mode', False):
        return k(st, self.tv_tables[f.payload[0]])
    if f.tag == 'detrole':
        return self.call_detrole(st, f.payload[0], f.payload[1], pos, kws, kwstar, k)
    if f.tag == 'tablefn':
        name, clsid = f.payload
        if name == 'get_fields':
            return k(st, self.field_table(clsid))
        return k(st, self.sync_table(clsid, 'pack' if 'before_pack' in name else 'unpack'))
    if f.tag == 'methsel':
        obj, sel, attr = f.payload
        cands = self.classes[obj.cls].get('methsel', {}).get(attr)
        if cands is None:
            for cc in self.mro(obj.cls):
                cands = cands or self.classes[cc].get('methsel', {}).get(attr)
        if not cands:
            raise Untranslated('no candidates for method attribute %s.%s' % (obj.cls, attr))
        rest = st
        for q in cands:
            s2 = rest.fork('%s=%s' % (attr, q.split('.')[-1]))
            s2.assume(sel == z3.StringVal(q))
            if self.feasible(s2, z3.BoolVal(True)):
                self.call_contract(s2, self.contracts[q], [obj] + pos, kws, kwstar, k)
            rest = rest.fork()
            rest.assume(sel != z3.StringVal(q))
        if self.feasible(rest, z3.BoolVal(True)):
            rest.path.append('%s=?' % attr)
            self.add_obligation(rest, 'pre@call', 'method attribute %s is one of its candidates' % attr, z3.BoolVal(False), '')
        return
    raise Untranslated('call of %r' % (f,))


def m_call_helper(self, st, q, pos, kws, kwstar, k):
    """execute the real body of a module-level helper in place"""
    node, seg, sha = find_function(q)
    self.helper_sources = getattr(self, 'helper_sources', {})
    self.helper_sources[q] = sha
    if getattr(self, 'helper_depth', 0) > 4:
        raise Untranslated('helper recursion in %s' % q)
    a = node.args
    if kwstar is not None or a.kwonlyargs or a.kwarg or a.defaults:
        raise Untranslated('helper %s with keyword / default parameters' % q)
    names = [x.arg for x in a.args]
    env = {}
    pos = list(pos)
    for nm in names:
        if nm in kws:
            env[nm] = kws[nm]
        elif pos:
            env[nm] = pos.pop(0)
        else:
            raise Untranslated('missing argument %s of helper %s' % (nm, q))
    if a.vararg:
        env[a.vararg.arg] = VTuple(pos)
    elif pos:
        raise Untranslated('too many arguments for helper %s' % q)
    saved_loc, outer = st.loc, st.ctx
    st.loc = dict(env)
    st.path.append('in:' + q.split(':')[1])

    def restore(st2):
        st2.loc = dict(saved_loc)
        st2.ctx = outer

    def on_return(st2, v):
        restore(st2)
        self.helper_depth -= 1
        r = k(st2, v)
        self.helper_depth += 1
        return r

    def on_raise(st2, exc):
        restore(st2)
        return outer.on_raise(st2, exc)
    st.ctx = Ctx(on_return, on_raise)
    saved_ord = dict(self.loop_ordinals)
    for sub in ast.walk(node):
        if isinstance(sub, (ast.For, ast.While)):
            self.loop_ordinals[id(sub)] = 1000 + len(self.loop_ordinals)
        if isinstance(sub, ast.If) and not hasattr(sub, 'lineno_rel'):
            sub.lineno_rel = 100 + sub.lineno - node.lineno
    self.helper_depth = getattr(self, 'helper_depth', 0) + 1
    try:
        return self.exec_block(st, strip_docstring(node.body), lambda st2: on_return(st2, VNone()))
    finally:
        self.helper_depth -= 1


def m_call_inline(self, st, c, pos, kws, kwstar, k):
    """execute the real body of the callee in place (its locals are a fresh frame)"""
    node, seg, sha = find_function(c.target)
    self.tv_sources[c.target] = sha
    env = self.bind_args(c, pos, kws, kwstar)
    saved_loc, saved_ctx = st.loc, st.ctx
    st.loc = dict(env)
    outer = saved_ctx

    def restore(st2):
        st2.loc = dict(saved_loc)
        st2.ctx = outer

    def on_return(st2, v):
        restore(st2)
        return k(st2, v)

    def on_raise(st2, exc):
        restore(st2)
        return outer.on_raise(st2, exc)
    st.ctx = Ctx(on_return, on_raise)
    body = strip_docstring(node.body)
    first = node.lineno
    ifc = 0
    for sub in ast.walk(node):
        if isinstance(sub, ast.If):
            sub.lineno_rel = ifc
            ifc += 1
    return self.exec_block(st, body, lambda st2: on_return(st2, VNone()))


def m_tv_frag_insert(self, st, frag, position, string, k, restore=None):
    """Fragments.insert in translation-validation mode: the buffer is the sparse byte array of its
    contract (C11): raise iff a byte of the range is occupied, else store exactly those bytes."""
    pos, c1 = self.as_int(position)
    sb, c2 = self.as_bytes(string)
    if z3.is_app(sb) and sb.decl().name() == 'bconcat' and is_false(z3.Or(c1, c2)) and restore is None:
        # storing x ++ y at p is storing x at p and y at p + |x|: the collision test of every part is the very term the
        # per-field code tests (buffer terms of vectorised and per-field code stay syntactically aligned).  But the insert
        # is ATOMIC: when a part collides, NOTHING has been stored and the cursor has not moved (the handlers report the
        # cursor) - the raising path gets the buffer as it was before the first part.
        def parts_of(t):
            if z3.is_app(t) and t.decl().name() == 'bconcat':
                return parts_of(t.children()[0]) + parts_of(t.children()[1])
            return [t]
        parts = parts_of(sb)
        orig = {key: st.heap[key] for key in ('Fragments.occ', 'Fragments.byt', 'Fragments.current_offset', 'Fragments.extent')}

        def go(st, i, at):
            if i == len(parts):
                return k(st, VNone())
            return self.tv_frag_insert(st, frag, VInt(at), VBytes(parts[i]), lambda st, _: go(st, i + 1, at + T.blen(parts[i])), restore=orig)
        return go(st, 0, pos)
    L = T.blen(sb)
    occ = z3.Select(st.heap['Fragments.occ'], frag.z)
    byt = z3.Select(st.heap['Fragments.byt'], frag.z)
    ext = z3.Select(st.heap['Fragments.extent'], frag.z)
    p = z3.Int('p!fi')
    collide = z3.Exists([p], z3.And(pos <= p, p < pos + L, z3.Select(occ, p)))
    self.used_assumptions.add('Fragments behaves as the sparse byte array of its contract (C11)')

    def cont(st):
        inr = z3.And(pos <= p, p < pos + L)
        st.heap['Fragments.occ'] = z3.Store(st.heap['Fragments.occ'], frag.z, z3.Lambda([p], z3.If(inr, True, z3.Select(occ, p))))
        st.heap['Fragments.byt'] = z3.Store(st.heap['Fragments.byt'], frag.z,
                                            z3.Lambda([p], z3.If(inr, T.bat(sb, p - pos), z3.Select(byt, p))))
        st.heap['Fragments.current_offset'] = z3.Store(st.heap['Fragments.current_offset'], frag.z, pos + L)
        st.heap['Fragments.extent'] = z3.Store(st.heap['Fragments.extent'], frag.z, z3.If(pos + L > ext, pos + L, ext))
        return k(st, VNone())
    if restore is not None:
        # one part of an atomic multi-part insert: on collision raise from the ORIGINAL buffer state
        cz = zs(collide)
        if not z3.is_false(cz) and self.feasible(st, cz):
            s2 = st.fork('raise:Exception')
            s2.assume(cz)
            for key, v in restore.items():
                s2.heap[key] = v
            self.do_raise(s2, VExc('Exception'))
        st.assume(z3.Not(cz))
        if not self.feasible(st, z3.BoolVal(True)):
            return
        return cont(st)
    return self.with_raises(st, [(z3.Or(c1, c2), 'TypeError'), (collide, 'Exception')], cont)


DET_COMPS = ['slots', 'has', 'llen', 'lat', 'next', 'Fragments.fragments#has', 'Fragments.fragments#val',
             'Fragments.current_offset', 'Fragments.begin_of_fragments', 'Fragments.ghost_idx#has', 'Fragments.ghost_idx#val']


def m_call_detrole(self, st, role, fid, pos, kws, kwstar, k):
    """A table entry that is not modelled concretely (variable field, sync hook): its effect is a
    DETERMINISTIC uninterpreted function of (the callable, the packet heap, the buffer, the arguments).
    Two programs that call it with equal inputs therefore observe equal results - exactly what the
    equivalence of generated and generic code needs."""
    args = list(pos) + [kws[kk] for kk in sorted(kws)] + ([kwstar] if kwstar is not None else [])
    argz = []
    for a in args:
        argz.append(a.z)
    ins = [fid] + [st.heap[c] for c in DET_COMPS] + argz
    sorts = [x.sort() for x in ins]
    tag = '%s_%s' % (role.replace('.', '_'), '_'.join(sorted(kws)))

    def fn(out, sort):
        return z3.Function('det_%s_%s' % (tag, out), *(sorts + [sort]))(*ins)
    r_pe = fn('raises_pe', T.B)
    r_other = fn('raises_other', T.B)
    post = {c: fn('post_' + c.replace('.', '_').replace('#', '_'), st.heap[c].sort()) for c in DET_COMPS}
    # PacketError raised by a nested packet
    s1 = st.fork('det:%s!PacketError' % role)
    s1.assume(r_pe)
    for c in DET_COMPS:
        s1.heap[c] = fn('pe_' + c.replace('.', '_').replace('#', '_'), st.heap[c].sort())
    exc = VExc('PacketError', ref=fn('excref', T.I), eid=fresh('eid', T.I))
    self.do_raise(s1, exc)
    s2 = st.fork('det:%s!Other' % role)
    s2.assume(z3.And(z3.Not(r_pe), r_other))
    for c in DET_COMPS:
        s2.heap[c] = fn('oe_' + c.replace('.', '_').replace('#', '_'), st.heap[c].sort())
    self.do_raise(s2, VExc('OtherException*', eid=fn('eid', T.I), msg='det'))
    st.assume(z3.And(z3.Not(r_pe), z3.Not(r_other)))
    old_slots, old_has = st.heap['slots'], st.heap['has']
    for c in DET_COMPS:
        st.heap[c] = post[c]
    # WFClass (slot sets of distinct table entries are disjoint) + purity of pack (C13): an abstract
    # entry does not write the value slots of the concretely modelled fixed fields of the same packet
    pk = kws.get('pkt', pos[0] if pos else None)
    if pk is not None and (role.startswith('FIELD') or role.startswith('SYNC')):
        if role.startswith('SYNC'):
            self.used_assumptions.add('a descriptor sync hook writes only the hidden slots of described fields (Auto.sync_before_pack: proved, C17), '
                                      'never the value slot of a field without descriptor')
        for nm in getattr(self, 'tv_fixed_names', []):
            if role.startswith('SYNC') and nm.startswith('_described_'):
                continue
            n_ = z3.StringVal(nm)
            st.assume(z3.Select(z3.Select(st.heap['slots'], pk.z), n_) == z3.Select(z3.Select(old_slots, pk.z), n_))
            st.assume(z3.Select(z3.Select(st.heap['has'], pk.z), n_) == z3.Select(z3.Select(old_has, pk.z), n_))
    res = fn('result', T.I)
    if role.endswith('unpack'):
        return k(st, VInt(res))
    return k(st, VDyn(T.Val.VI(res)))


def m_bind_args(self, c, pos, kws, kwstar):
    names = list(c.params.keys())
    env = {}
    kwparam = [p for p, kd in c.params.items() if kd == 'kw']
    plain = [p for p in names if c.params[p] not in ('kw', 'varargs')]
    for p in names:
        if c.params[p] == 'varargs':        # the callee's own *args: no call site passes extra positionals (else refused below)
            env[p] = VSeqAbs(z3.IntVal(0), lambda i: VDyn(T.Val.VN), 'opaque-varargs')
    if len(pos) > len(plain):
        raise Untranslated('too many positional args for %s' % c.name)
    for p, v in zip(plain, pos):
        env[p] = v
    for name, v in kws.items():
        if name in c.params and c.params[name] != 'kw':
            env[name] = v
        elif getattr(c, 'varkw', None):
            pass
        elif kwparam:
            base = kwstar.z if kwstar is not None else self.empty_kw()
            if name == 'packing':
                kwstar = VKw(kw_with(base, packing=self.truth(None, v)))
            elif name == 'root':
                kwstar = VKw(kw_with(base, has_root=z3.BoolVal(True), root=v.z))
            elif name == 'raw' and isinstance(v, VBytes):
                kwstar = VKw(kw_with(base, has_raw=z3.BoolVal(True), kraw=v.z))
            elif name == 'offset':
                kwstar = VKw(kw_with(base, has_off=z3.BoolVal(True), koff=self.as_int(v)[0]))
            else:
                raise Untranslated('extra keyword %s for %s' % (name, c.name))
        else:
            raise Untranslated('unexpected keyword %s for %s' % (name, c.name))
    varkw = getattr(c, 'varkw', None)
    if varkw and varkw not in env:
        extra = {nm: v for nm, v in kws.items() if nm not in c.params}
        has = z3.K(T.S, z3.BoolVal(False))
        val = z3.K(T.S, T.Val.VN)
        for nm, v in extra.items():
            has = z3.Store(has, z3.StringVal(nm), True)
            val = z3.Store(val, z3.StringVal(nm), to_val(v))
        env[varkw] = VConf(T.Conf.mkconf(has, val))
    if kwparam:
        env[kwparam[0]] = kwstar if kwstar is not None else VKw(self.empty_kw())
    elif kwstar is not None:
        # **k forwarded to a callee without **k: the keys pkt/raw/offset would have to be in k; unsupported
        raise Untranslated('**k passed to %s which has no **k' % c.name)
    for p in plain:
        if p not in env and kwstar is not None and p in ('raw', 'offset'):
            # the argument travels inside **k (Ref._unpack_referencing_a_packet: p.unpack_impl(**k))
            env[p] = VBytes(T.Kw.kraw(kwstar.z)) if p == 'raw' else VInt(T.Kw.koff(kwstar.z))
            self.pending_pre.append((T.Kw.has_raw(kwstar.z) if p == 'raw' else T.Kw.has_off(kwstar.z),
                                     '**k carries %s' % p))
            continue
        if p not in env:
            d = getattr(c, 'defaults', {}).get(p)
            if d is None and p.startswith('ghost_'):
                # a ghost parameter of the callee's contract (universally quantified in its own proof): any value
                env[p] = self.wrap(c.params[p], fresh(p, self.kind_sort(c.params[p])))
                continue
            if d is None:
                raise Untranslated('missing argument %s for %s' % (p, c.name))
            env[p] = SpecEval(self, None, {}).ev(ast.parse(d, mode='eval').body) if isinstance(d, str) else d
    return env


KW_FIELDS = ['has_ipp', 'ipp', 'has_root', 'root', 'packing', 'rest', 'has_raw', 'kraw', 'has_off', 'koff']


def kw_with(z, **upd):
    vals = []
    for f in KW_FIELDS:
        vals.append(upd[f] if f in upd else getattr(T.Kw, f)(z))
    return T.Kw.mkkw(*vals)


def m_empty_kw(self):
    return T.Kw.mkkw(False, 0, False, 0, False, 0, False, T.bempty, False, 0)


def m_call_contract(self, st, c, pos, kws, kwstar, k, site=''):
    if self.cur is not None and c.name in getattr(self.cur, 'callee_variants', {}):
        c = self.contracts[self.cur.callee_variants[c.name]]
    self.pending_pre = []
    env = self.bind_args(c, pos, kws, kwstar)
    for g, text in self.pending_pre:
        self.add_obligation(st, 'pre@call', '%s for %s' % (text, short(c.name)), g, text)
        st.assume(g)
    # sidecar assertions attached to calls of this callee (arg_<param> = actual argument)
    for clause in self.cur.call_asserts.get(short(c.name), []) if self.cur is not None else []:
        e2 = dict(self.fn_env)
        e2.update({nm: v for nm, v in st.loc.items() if v is not None})
        e2.update({g: v for g, v in st.ghost.items() if isinstance(v, V)})
        e2.update({'arg_' + p: v for p, v in env.items()})
        self.add_obligation(st, 'assert@call', 'at call of %s: %s' % (short(c.name), clause[:60]),
                            self.spec_goal(st, clause, e2, old=self.fn_pre), clause)
    post_effects = {}
    for g, expr in (self.cur.call_effects.get(short(c.name), {}) if self.cur is not None else {}).items():
        if _re.search(r'\bresult\b', expr):
            post_effects[g] = expr       # mentions the callee's result: performed after the call (normal outcome)
            continue
        e3 = dict(self.fn_env)
        e3.update({gg: v for gg, v in st.ghost.items() if isinstance(v, V)})
        e3.update({'arg_' + p: v for p, v in env.items()})
        st.ghost[g] = self.spec(st, expr, e3)
    # a dynamically typed argument for a typed parameter: its type is an obligation
    for p, kind in c.params.items():
        v = env.get(p)
        if isinstance(v, VDyn) and kind in ('bytes', 'int', 'bool', 'str'):
            self.add_obligation(st, 'pre@call', 'argument %s of %s is %s' % (p, short(c.name), kind),
                                self.isinst(st, v, kind), 'type of argument')
            env[p] = self.wrap(kind, self.unwrap(kind, v))
        elif isinstance(v, VDyn) and kind.startswith('ref:'):
            self.add_obligation(st, 'pre@call', 'argument %s of %s is a %s' % (p, short(c.name), kind[4:]),
                                self.isinst(st, v, kind[4:]), 'type of argument')
            env[p] = VRef(T.Val.rval(v.z), kind[4:])
    for p, kind in c.params.items():
        if kind == 'conf' and isinstance(env.get(p), VDictLit) and all(isinstance(kk, str) for kk, _ in env[p].items):
            has_, val_ = z3.K(T.S, z3.BoolVal(False)), z3.K(T.S, T.Val.VN)
            for kk, vv in env[p].items:
                has_ = z3.Store(has_, z3.StringVal(kk), z3.BoolVal(True))
                val_ = z3.Store(val_, z3.StringVal(kk), self.unwrap('dyn', vv))
            env[p] = VConf(T.Conf.mkconf(has_, val_))
        if kind == 'list' and isinstance(env.get(p), VSeqAbs):
            raise Untranslated('abstract sequence passed as a list')
    call_st = st.fork()
    # check preconditions
    for i, r in enumerate(c.requires):
        g = self.spec_goal(st, r, env)
        self.add_obligation(st, 'pre@call', 'pre#%d of %s' % (i, short(c.name)), g, r)
        st.assume(g)
    pre = st.fork()     # snapshot for old()

    def post_state(s, label):
        s2 = s.fork(label)
        self.havoc_modifies(s2, pre, c, env)
        return s2

    # ghost variables of the callee are unknown to the caller (existentially quantified)
    for g, kind in getattr(c, 'ghost_kinds', {}).items():
        env[g] = self.wrap(kind, fresh(g, self.kind_sort(kind)))
    # exceptional outcomes
    for cls, conds in c.raises.items():
        s2 = post_state(st, 'call:%s!%s' % (short(c.name), cls))
        exc = VExc(cls, eid=fresh('eid', T.I))
        env2 = dict(env)
        if cls == 'PacketError' or cls == 'Exception*':
            exc.ref = fresh('excref', T.I)
            env2['exc'] = VRef(exc.ref, 'PacketError')
            s2.assume(z3.And(exc.ref >= 0, exc.ref < s2.heap['next'], self.inst_of(exc.ref, 'PacketError')))
        feasible = True
        for ci, cond in enumerate(conds):
            g = zs(self.spec_bool(s2, cond, env2, old=pre))
            kf = c.known.get('raises %s#%d' % (cls, ci))
            if kf is not None:      # callee clause with a recorded defect: only its residual may be assumed
                g = z3.Implies(z3.Not(self.spec_bool(s2, kf['case'], env2, old=pre)), g)
            if z3.is_false(g):
                feasible = False
                break
            s2.assume(g)
        if feasible:
            self.do_raise(s2, exc)
    for key in c.known:
        if key.startswith('no ') and key.endswith(' escapes'):
            cls = key[3:-8]
            if cls not in c.raises:
                s2 = post_state(st, 'call:%s!%s(known)' % (short(c.name), cls))
                self.do_raise(s2, VExc(cls, eid=fresh('eid', T.I)))
    # normal outcome
    s3 = post_state(st, None)
    env3 = dict(env)
    if c.returns == 'same:fragments':
        res = env['fragments']
    elif c.returns == 'none':
        res = VNone()
    elif c.returns.startswith('new:'):
        res = VRef(fresh('res', T.I), c.returns[4:])
    else:
        rk = 'dyn' if c.returns == 'any' else c.returns
        res = self.wrap(rk, fresh('res', self.kind_sort(rk)))
    env3['result'] = res
    # a returned reference designates an object that exists in the post-state
    if isinstance(res, (VRef, VList)) and not c.returns.startswith('same:'):
        s3.assume(z3.And(res.z >= 0, res.z < s3.heap['next']))
    ok = True
    for ei, e in enumerate(c.ensures):
        g = zs(self.spec_bool(s3, e, env3, old=pre))
        kf = c.known.get('post#%d' % ei)
        if kf is not None:
            g = z3.Implies(z3.Not(self.spec_bool(s3, kf['case'], env3, old=pre)), g)
        if z3.is_false(g):
            ok = False
            break
        s3.assume(g)
    if ok:
        for g, expr in post_effects.items():
            e4 = dict(self.fn_env)
            e4.update({gg: v for gg, v in s3.ghost.items() if isinstance(v, V)})
            e4['result'] = res
            s3.ghost[g] = self.spec(s3, expr, e4)
        k(s3, res)


def short(name):
    return name.split(':')[-1]


def m_mod_footprint(self, st, c, env):
    """Evaluate the modifies clauses of contract c in state st (pre-state) ->
    dict heap key -> list of z3 'cell' descriptors."""
    fp = {}
    for m in c.modifies:
        m = m.strip()
        if m == 'fresh':
            continue
        if m.startswith('slot('):
            inner = m[5:-1]
            a, b = split_top(inner)
            if a.strip().startswith('any:'):
                # slot(any:Class, *): the slots of every object of the class (module namespaces)
                fp.setdefault('slots', []).append(('class', a.strip()[4:]))
                continue
            pkt = self.spec(st, a.strip(), env)
            if b.strip() == '*':
                fp.setdefault('slots', []).append(('obj', pkt.z))
            elif b.strip().startswith('in:'):
                # slot(pkt, in:Pred) : any name n with Pred(n) true
                pred = b.strip()[3:]
                fp.setdefault('slots', []).append(('pred', pkt.z, pred, env))
            else:
                name = self.spec(st, b.strip(), env)
                fp.setdefault('slots', []).append(('cell', pkt.z, name.z))
            continue
        mm = _re.match(r'^([A-Z]\w*)\.(\w+)\[\*\]$', m)
        if mm and mm.group(1) in self.classes:
            # Class.attr[*]: the attribute of ANY object of the class (class-construction time code)
            fp.setdefault('%s.%s' % (mm.group(1), mm.group(2)), []).append('ALL')
            continue
        if m.endswith('[*]'):
            l = self.spec(st, m[:-3], env)
            fp.setdefault('list', []).append(l.z)
            continue
        if m.endswith('{*}'):
            d = self.spec(st, m[:-3], env)
            fp.setdefault(d.key + '#', []).append(d.owner)
            continue
        if m.endswith('.*'):
            o = self.spec(st, m[:-2], env)
            # every attribute the object can have: those of its class, its bases and its subclasses
            for cc in [x for x in self.classes if x in self.mro(o.cls) or o.cls in self.mro(x)]:
                for a, kd in self.classes.get(cc, {}).get('attrs', {}).items():
                    fp.setdefault('%s.%s%s' % (cc, a, '#' if kd.startswith('dict:') else ''), []).append(o.z)
            continue
        # obj.attr
        base, attr = m.rsplit('.', 1)
        o = self.spec(st, base, env)
        owner, kind = self.attr_kind(o.cls, attr)
        if kind is None:
            raise Untranslated('modifies: unknown attr ' + m)
        fp.setdefault('%s.%s' % (owner, attr), []).append(o.z)
    return fp


import re as _re


def split_top(s):
    depth = 0
    for i, ch in enumerate(s):
        if ch in '([{':
            depth += 1
        elif ch in ')]}':
            depth -= 1
        elif ch == ',' and depth == 0:
            return s[:i], s[i + 1:]
    raise ValueError(s)


def m_havoc_modifies(self, st, pre, c, env, nxt0=None, alloc=None, full=False):
    """Replace every location in c's modifies-footprint (and, if c allocates, every fresh object)
    by an unconstrained value; everything else keeps its pre-state value.  Each changed heap
    component becomes a fresh array constant with a triggered frame axiom (Boogie style):
        forall r. r allocated before /\ r not in footprint  =>  A'[r] == A[r]      {A'[r]}"""
    fp = self.mod_footprint(pre, c, env)
    nxt0 = pre.heap['next'] if nxt0 is None else nxt0
    r = z3.Int('r!h')
    alloc = c.allocates if alloc is None else alloc
    if alloc and not full:
        st.opaque_alloc = True
    if alloc and full and not st.opaque_alloc:
        # Loop head, and every object created so far in this activation is known by name:
        # havoc exactly those objects (plain stores, no quantified frame axioms) plus the footprint.
        return self.havoc_named(st, pre, fp)
    if alloc:
        n1 = fresh('next', T.I)
        st.assume(n1 >= pre.heap['next'])
        st.heap['next'] = n1

    def havoc_array(key, cells):
        old = pre.heap[key]
        if any(isinstance(cz, str) for cz in cells):
            st.heap[key] = fresh(key.replace('.', '_').replace('?', '_set'), old.sort())
            return
        if not (alloc and full) and len(cells) <= 2:
            new = old
            for cz in cells:
                new = z3.Store(new, cz, z3.Select(fresh('hv', old.sort()), cz))
            st.heap[key] = new
            return
        new = fresh(key.replace('.', '_').replace('#', '_').replace('?', '_set'), old.sort())
        keep = z3.And([r != cz for cz in cells] + ([r < nxt0] if (alloc and full) else []) + [z3.BoolVal(True)])
        ax = safe_forall([r], z3.Implies(keep, z3.Select(new, r) == z3.Select(old, r)),
                         patterns=[z3.Select(new, r)])
        self.frame_axioms[ax.get_id()] = new.decl().name()
        st.assume(ax)
        st.heap[key] = new

    self._havoc_full = full
    if alloc and full and 'slots' not in fp:
        fp['slots'] = []
    for key, cells in fp.items():
        if key == 'slots':
            self.havoc_slots(st, pre, cells, alloc, nxt0)
        elif key == 'list':
            havoc_array('llen', cells)
            havoc_array('lat', cells)
        elif key.endswith('#'):
            havoc_array(key + 'has', cells)
            havoc_array(key + 'val', cells)
        else:
            havoc_array(key, cells)
            if key + '?' in pre.heap:
                havoc_array(key + '?', cells)
    # A callee that allocates only bumps `next`: locations at references >= next were never
    # constrained, so whatever the callee stored there can simply be assumed by its postcondition.
    # At a loop head (full=True) objects allocated since function entry may have been changed by
    # earlier iterations, so every component is havoced above the entry allocation mark.
    if alloc and full:
        done = set(fp.keys())
        for key in list(pre.heap.keys()):
            if key == 'next':
                continue
            covered = (key in done or (key in ('llen', 'lat') and 'list' in done)
                       or (key in ('slots', 'has') and 'slots' in done)
                       or (key.endswith('#has') and key[:-3] in done)
                       or (key.endswith('#val') and key[:-3] in done)
                       or (key.endswith('?') and key[:-1] in done))
            if covered:
                continue
            havoc_array(key, [])


def m_havoc_named(self, st, pre, fp):
    """havoc the contents of the explicitly allocated local objects and of the modifies footprint;
    earlier iterations may have allocated more objects: `next` moves to an unknown later mark (their
    contents are simply not known - locations above the old mark were never constrained)"""
    n1 = fresh('next', T.I)
    st.assume(n1 >= st.heap['next'])
    st.heap['next'] = n1

    def store_fresh(key, ref):
        old = st.heap[key]
        st.heap[key] = z3.Store(old, ref, z3.Select(fresh('hv', old.sort()), ref))
    for ref, kind in st.alloc_refs:
        if kind == 'list':
            store_fresh('llen', ref)
            store_fresh('lat', ref)
        else:
            store_fresh('slots', ref)
            store_fresh('has', ref)
            for cc in self.mro(kind):
                for a, kd in self.classes.get(cc, {}).get('attrs', {}).items():
                    if kd.startswith('dict:'):
                        store_fresh('%s.%s#has' % (cc, a), ref)
                        store_fresh('%s.%s#val' % (cc, a), ref)
                    else:
                        store_fresh('%s.%s' % (cc, a), ref)
                        if '%s.%s?' % (cc, a) in st.heap:
                            store_fresh('%s.%s?' % (cc, a), ref)
    for key, cells in fp.items():
        if key == 'slots':
            if cells:
                self._havoc_full = False
                self.havoc_slots(st, st.fork(), cells, False, pre.heap['next'])
        elif key == 'list':
            for cz in cells:
                store_fresh('llen', cz)
                store_fresh('lat', cz)
        elif key.endswith('#'):
            for cz in cells:
                store_fresh(key + 'has', cz)
                store_fresh(key + 'val', cz)
        else:
            for cz in cells:
                if isinstance(cz, str):
                    st.heap[key] = fresh(key.replace('.', '_'), st.heap[key].sort())
                    if key + '?' in st.heap:
                        st.heap[key + '?'] = fresh(key.replace('.', '_') + '_set', st.heap[key + '?'].sort())
                else:
                    store_fresh(key, cz)


def m_havoc_slots(self, st, pre, cells, alloc, nxt0):
    r = z3.Int('r!h')
    nm = z3.String('n!h')
    if any(c[0] == 'class' for c in cells):
        raise Untranslated('call of a contract with a class-wide slot footprint')
    objs = [c[1] for c in cells if c[0] == 'obj']
    partial = {}
    for cdesc in cells:
        if cdesc[0] != 'obj':
            partial.setdefault(str(cdesc[1]), (cdesc[1], []))[1].append(cdesc)
    for comp in ('slots', 'has'):
        old = pre.heap[comp]
        new = fresh(comp, old.sort())
        # objects not touched at all keep their whole slot map
        untouched = z3.And([r != o for o in objs] + [r != p[0] for p in partial.values()] +
                           ([r < nxt0] if (alloc and getattr(self, '_havoc_full', False)) else []) + [z3.BoolVal(True)])
        ax = safe_forall([r], z3.Implies(untouched, z3.Select(new, r) == z3.Select(old, r)),
                         patterns=[z3.Select(new, r)])
        if not partial:
            self.frame_axioms[ax.get_id()] = new.decl().name()
        st.assume(ax)
        # partially modified objects keep the slots outside the footprint
        for pz, descs in partial.values():
            if any(pz.eq(o) for o in objs):
                continue
            conds = []
            for cdesc in descs:
                if cdesc[0] == 'cell':
                    conds.append(nm == cdesc[2])
                else:
                    env = dict(cdesc[3])
                    env['n'] = VStr(nm)
                    conds.append(self.spec_bool(pre, cdesc[2], env))
            st.assume(safe_forall([nm], z3.Implies(z3.Not(z3.Or(conds)),
                                                   z3.Select(z3.Select(new, pz), nm) == z3.Select(z3.Select(old, pz), nm)),
                                  patterns=[z3.Select(z3.Select(new, pz), nm)]))
        st.heap[comp] = new


# ---------------------------------------------------------------------- builtins
def m_call_builtin(self, st, name, pos, kws, kwstar, starv, k):
    if name == 'zip' and starv is not None and not pos:
        # zip(*rows) of a list of pairs: the columns (only passed on to opaque str/join operations)
        n = self.llen(st, starv.z) if isinstance(starv, VList) else starv.n
        cols = [VSeqAbs(n, (lambda c: (lambda i: VDyn(z3.Function('zipcol', T.I, T.I, T.I, T.Val)(fresh('zip', T.I), z3.IntVal(c), i))))(c), 'zipcol')
                for c in range(2)]
        return self.with_raises(st, [(n == 0, 'ValueError')], lambda st: k(st, VTuple(cols)))
    h = getattr(self, 'bi_' + name.replace('.', '_'), None)
    if h is None:
        raise Untranslated('builtin %s' % name)
    return h(st, pos, kws, k)


def m_bi_len(self, st, pos, kws, k):
    v = pos[0]
    if isinstance(v, VDyn):
        bad = z3.Not(z3.Or(T.Val.is_VBy(v.z), T.Val.is_VL(v.z)))
        return self.with_raises(st, [(bad, 'TypeError')], lambda st: k(st, VInt(length_of(self, st, v))))
    if isinstance(v, (VInt, VBool, VNone)):
        return self.do_raise(st, VExc('TypeError'))
    return k(st, VInt(length_of(self, st, v)))


def m_bi_bool(self, st, pos, kws, k):
    return k(st, VBool(self.truth(st, pos[0])))


def m_bi_int(self, st, pos, kws, k):
    """int(x): an integer-like value converts to itself; anything else (floats, numeric text, objects with __int__)
    raises TypeError or ValueError or converts to SOME integer (over-approximation)"""
    if not pos:
        return k(st, VInt(z3.IntVal(0)))
    if len(pos) > 1 or kws:
        raise Untranslated('int() with a base')
    v = pos[0]
    if isinstance(v, (VInt, VBool)):
        return k(st, VInt(self.as_int(v)[0]))
    if isinstance(v, VNone):
        return self.do_raise(st, VExc('TypeError'))

    def other(st):
        self.do_raise(st.fork('int():TypeError'), VExc('TypeError'))
        self.do_raise(st.fork('int():ValueError'), VExc('ValueError'))
        return k(st, VInt(fresh('int_of', T.I)))
    if isinstance(v, VDyn):
        x, notint = self.as_int(v)
        return self.branch(st, z3.Not(notint), lambda st: k(st, VInt(x)), other, 'int()')
    return other(st)


def m_bi_callable(self, st, pos, kws, k):
    v = pos[0]
    if isinstance(v, VFunc):
        return k(st, VBool(True))
    if isinstance(v, VDyn):
        return k(st, VBool(self.is_callable(v.z)))
    if isinstance(v, VRef):
        return k(st, VBool(z3.BoolVal(v.cls in self.callable_classes)))
    return k(st, VBool(False))


def m_is_callable(self, z):
    # functions are callable; object references may be (uninterpreted, immutable property of the object)
    f = z3.Function('obj_callable', T.I, T.B)
    return z3.Or(T.Val.is_VF(z), z3.And(T.Val.is_VR(z), f(T.Val.rval(z))))


def m_isinst(self, st, v, clsname):
    """z3 Bool: python isinstance(v, clsname)"""
    if clsname == 'int':
        if isinstance(v, (VInt, VBool)):
            return z3.BoolVal(True)
        if isinstance(v, VDyn):
            return T.is_intlike(v.z)
        return z3.BoolVal(False)
    if clsname == 'bool':
        if isinstance(v, VBool):
            return z3.BoolVal(True)
        if isinstance(v, VDyn):
            return T.Val.is_VB(v.z)
        return z3.BoolVal(False)
    if clsname == 'bytes':
        if isinstance(v, VBytes):
            return z3.BoolVal(True)
        if isinstance(v, VDyn):
            return T.Val.is_VBy(v.z)
        return z3.BoolVal(False)
    if clsname == 'str':
        if isinstance(v, VStr):
            return z3.BoolVal(True)
        if isinstance(v, VDyn):
            return T.Val.is_VS(v.z)
        return z3.BoolVal(False)
    if clsname in ('list', 'tuple', 'dict'):
        if isinstance(v, VList):
            return z3.BoolVal(clsname == 'list')
        if isinstance(v, VTuple):
            return z3.BoolVal(clsname == 'tuple')
        if isinstance(v, VDyn):
            if clsname == 'list':
                return T.Val.is_VL(v.z)
            return z3.And(T.Val.is_VO(v.z), z3.Function('obj_is_' + clsname, T.I, T.B)(T.Val.oval(v.z)))
        return z3.BoolVal(False)
    # schema classes
    if isinstance(v, VRef):
        if self.is_subclass(v.cls, clsname):
            return z3.BoolVal(True)
        if self.is_subclass(clsname, v.cls):
            return self.inst_of(v.z, clsname)
        return z3.BoolVal(False)
    if isinstance(v, VDyn):
        return z3.And(T.Val.is_VR(v.z), self.inst_of(T.Val.rval(v.z), clsname))
    return z3.BoolVal(False)


def m_inst_of(self, r, clsname):
    f = z3.Function('inst_' + clsname, T.I, T.B)
    key = ('inst', clsname)
    if key not in self._facts_added:
        self._facts_added.add(key)
        x = z3.Int('x!i')
        # subclass => superclass ; disjoint hierarchies
        for b in self.mro(clsname)[1:]:
            fb = z3.Function('inst_' + b, T.I, T.B)
            self.extra_hyps.append(safe_forall([x], z3.Implies(f(x), fb(x)), patterns=[f(x)]))
        for a, b in self.disjoint_classes:
            if clsname in (a, b):
                fa, fb = z3.Function('inst_' + a, T.I, T.B), z3.Function('inst_' + b, T.I, T.B)
                self.extra_hyps.append(safe_forall([x], z3.Not(z3.And(fa(x), fb(x))), patterns=[fa(x)]))
                self.extra_hyps.append(safe_forall([x], z3.Not(z3.And(fa(x), fb(x))), patterns=[fb(x)]))
    return f(r)


def m_bi_isinstance(self, st, pos, kws, k):
    v, c = pos
    names = []
    if isinstance(c, VClassSym):
        f = z3.Function('isinst_cls', T.I, T.I, T.B)
        if isinstance(v, VRef):
            r, ok = v.z, z3.BoolVal(True)
        elif isinstance(v, VDyn):
            r, ok = T.Val.rval(v.z), T.Val.is_VR(v.z)
        else:
            return k(st, VBool(False))
        # an object is an instance of its own class (reflexivity is all that is assumed)
        self.extra_hyps.append(z3.Implies(self.class_of(r) == c.z, f(r, c.z)))
        return k(st, VBool(z3.And(ok, f(r, c.z))))
    if isinstance(c, VFunc) and c.tag in ('class', 'builtin'):
        names = [c.payload[0]]
    elif isinstance(c, VTuple):
        for it in c.items:
            if isinstance(it, VFunc) and it.tag in ('class', 'builtin'):
                names.append(it.payload[0])
            else:
                raise Untranslated('isinstance class arg')
    else:
        raise Untranslated('isinstance class arg %r' % (c,))
    return k(st, VBool(z3.Or([self.isinst(st, v, nm) for nm in names])))


def m_bi_getattr(self, st, pos, kws, k):
    obj, name = pos[0], pos[1]
    default = pos[2] if len(pos) > 2 else None
    if isinstance(obj, VRef) and isinstance(name, VStr) and name.py is not None and \
            self.attr_kind(obj.cls, name.py)[1] is not None:
        return k(st, self.read_attr(st, obj, name.py))
    if isinstance(obj, (VRef, VDyn)) and isinstance(name, VStr):
        oz = obj.z if isinstance(obj, VRef) else T.Val.rval(obj.z)
        raises = []
        if isinstance(obj, VDyn):
            raises.append((z3.Not(T.Val.is_VR(obj.z)), 'AttributeError'))
        has = self.slot_has(st, oz, name.z)
        val = VDyn(self.slot_get(st, oz, name.z))
        if default is not None:
            def cont(st):
                self.branch(st, has, lambda st: k(st, val), lambda st: k(st, default), 'getattr-default')
            return self.with_raises(st, raises, cont)
        raises.append((z3.Not(has), 'AttributeError'))
        return self.with_raises(st, raises, lambda st: k(st, val))
    raise Untranslated('getattr on %s' % obj.kind)


def m_bi_setattr(self, st, pos, kws, k):
    obj, name, val = pos
    if isinstance(obj, VRef) and isinstance(name, VStr) and name.py is not None and \
            self.attr_kind(obj.cls, name.py)[1] is not None:
        self.write_attr(st, obj, name.py, val)
        return k(st, VNone())
    if isinstance(obj, VRef) and isinstance(name, VStr):
        self.slot_set(st, obj.z, name.z, to_val(val))
        return k(st, VNone())
    if isinstance(obj, VRef) and isinstance(name, VDyn) and getattr(self.cur, 'descriptor_setattr', False):
        # setattr(packet, <name of a described field>, value): python's descriptor protocol calls
        # the descriptor's __set__ (assumed dispatch; Auto.__set__ itself is verified)
        c = self.contracts['role:DESC.__set__']
        nm = VStr(T.Val.sval(name.z))
        return self.with_raises(st, [(z3.Not(T.Val.is_VS(name.z)), 'TypeError')],
                                lambda st: self.call_contract(st, c, [obj, nm, val], {}, None, k))
    raise Untranslated('setattr on %s' % obj.kind)


def m_bi_delattr(self, st, pos, kws, k):
    """delattr(obj, name) on a packet-like object: the slot is removed; AttributeError when it is not set"""
    obj, name = pos
    if isinstance(obj, VRef) and isinstance(name, (VStr, VDyn)):
        nz = name.z if isinstance(name, VStr) else T.Val.sval(name.z)
        has = self.slot_has(st, obj.z, nz)

        def cont(st):
            st.heap['has'] = z3.Store(st.heap['has'], obj.z, z3.Store(z3.Select(st.heap['has'], obj.z), nz, False))
            return k(st, VNone())
        return self.with_raises(st, [(z3.Not(has), 'AttributeError')], cont)
    raise Untranslated('delattr on %s' % obj.kind)


def m_bi_hasattr(self, st, pos, kws, k):
    obj, name = pos
    if isinstance(obj, VRx) and name.py == 'search':
        return k(st, VBool(True))
    if isinstance(obj, (VBytes, VInt, VNone, VBool)) and name.py == 'search':
        return k(st, VBool(False))
    if isinstance(obj, VDyn) and name.py == 'search':
        # (bytes, ints, None, lists, fields have no `search`; an opaque object has one iff it is a compiled regex)
        return k(st, VBool(self.is_regex(obj.z)))
    if isinstance(obj, VRef) and name.py is not None:
        owner, kind = self.attr_kind(obj.cls, name.py)
        if kind is not None:
            key = '%s.%s?' % (owner, name.py)
            if key in st.heap:
                return k(st, VBool(z3.Select(st.heap[key], obj.z)))
            return k(st, VBool(True))
    if isinstance(obj, VRef) and isinstance(name, VStr):
        return k(st, VBool(self.slot_has(st, obj.z, name.z)))
    raise Untranslated('hasattr(%s, %s)' % (obj.kind, name.py))


def m_is_regex(self, z):
    f = z3.Function('obj_is_regex', T.I, T.B)
    return z3.And(T.Val.is_VO(z), f(T.Val.oval(z)))


def m_bi_int_from_bytes(self, st, pos, kws, k):
    b = pos[0]
    order = kws.get('byteorder', pos[1] if len(pos) > 1 else None)
    signed = kws.get('signed', VBool(False))
    bz, cb = self.as_bytes(b)
    if not isinstance(order, VStr):
        raise Untranslated('byteorder kind')
    big = order.z == z3.StringVal('big')
    little = order.z == z3.StringVal('little')
    self.used_assumptions.add('int.from_bytes/int.to_bytes axioms (theory.int_bytes_axioms)')
    return self.with_raises(st, [(cb, 'TypeError'), (z3.Not(z3.Or(big, little)), 'ValueError')],
                            lambda st: k(st, VInt(T.bval(bz, big, self.truth(st, signed)))))


def lo_hi(n, sg):
    lo = z3.If(sg, -T.pow2(8 * n - 1), 0)
    hi = z3.If(sg, T.pow2(8 * n - 1) - 1, T.pow2(8 * n) - 1)
    return lo, hi


def m_bi_struct_Struct(self, st, pos, kws, k):
    fmt = pos[0]
    if not (isinstance(fmt, VStr) and fmt.py is not None):
        raise Untranslated('struct.Struct with symbolic format')
    f = fmt.py
    if len(f) == 2 and f[0] in '<>' and f[1] in 'bBhHiIqQ':
        size = {'b': 1, 'h': 2, 'i': 4, 'q': 8}[f[1].lower()]
        self.used_assumptions.add('struct.Struct standard-size single-code semantics')
        return k(st, VStruct(T.SF.mksf(f[0] == '>', size, f[1].islower())))
    raise Untranslated('struct format %r' % f)


def struct_codes(fmt):
    import re as _re
    big = fmt[0] == '>'
    out = []
    for cnt, code in _re.findall(r'(\d*)([a-zA-Z])', fmt[1:]):
        if code == 's':
            out.append(('s', int(cnt or 1), False))
        else:
            for _ in range(int(cnt or 1)):
                out.append((code, {'b': 1, 'h': 2, 'i': 4, 'q': 8}[code.lower()], code.islower()))
    return big, out


def m_bi_StructUnpack(self, st, pos, kws, k):
    """struct.unpack(fmt, buf) for a literal standard-size format ('<'/'>' + B H I Q b h i q / Ns):
    struct.error unless len(buf) == calcsize; one value per code from consecutive sub-slices (assumed
    library contract, the multi-code form of the single-code contract used for Int; cross-checked)."""
    fmt, buf = pos
    if not (isinstance(fmt, VStr) and fmt.py is not None and fmt.py[0] in '<>'):
        raise Untranslated('StructUnpack with a non-literal format')
    big, codes = struct_codes(fmt.py)
    b, cb = self.as_bytes(buf)
    total = sum(sz for _, sz, _ in codes)
    self.used_assumptions.add('struct.pack/unpack with literal multi-code standard-size formats (assumed, cross-checked)')
    vals, off = [], 0
    for code, sz, sg in codes:
        part = T.bslice(b, z3.IntVal(off), z3.IntVal(off + sz))
        if code == 's':
            vals.append(VBytes(part))
        else:
            vals.append(VInt(T.bval(part, z3.BoolVal(big), z3.BoolVal(sg))))
        off += sz
    if 'intbytes' not in self.axiom_sets:
        self.axiom_sets.append('intbytes')
    return self.with_raises(st, [(cb, 'TypeError'), (T.blen(b) != total, 'StructError')], lambda st: k(st, VTuple(vals)))


def m_bi_StructUnpackFrom(self, st, pos, kws, k):
    """struct.unpack_from(fmt, buf, offset): a negative offset counts from the end; struct.error when the
    offset is out of range or fewer than calcsize bytes remain (assumed library contract)"""
    fmt, buf = pos[0], pos[1]
    off = pos[2] if len(pos) > 2 else kws.get('offset', VInt(0))
    if not (isinstance(fmt, VStr) and fmt.py is not None and fmt.py[0] in '<>'):
        raise Untranslated('StructUnpackFrom with a non-literal format')
    big, codes = struct_codes(fmt.py)
    b, cb = self.as_bytes(buf)
    o, co = self.as_int(off)
    n = T.blen(b)
    total = sum(sz for _, sz, _ in codes)
    o1 = z3.If(o < 0, o + n, o)
    bad = z3.Or(z3.And(o < 0, o + n < 0), n - o1 < total)
    vals, acc = [], 0
    for code, sz, sg in codes:
        part = T.bslice(b, o1 + acc, o1 + acc + sz)
        vals.append(VBytes(part) if code == 's' else VInt(T.bval(part, z3.BoolVal(big), z3.BoolVal(sg))))
        acc += sz
    if 'intbytes' not in self.axiom_sets:
        self.axiom_sets.append('intbytes')
    self.used_assumptions.add('struct.unpack_from semantics (assumed)')
    return self.with_raises(st, [(z3.Or(cb, co), 'TypeError'), (bad, 'StructError')], lambda st: k(st, VTuple(vals)))


def m_bi_StructPack(self, st, pos, kws, k):
    fmt = pos[0]
    if not (isinstance(fmt, VStr) and fmt.py is not None and fmt.py[0] in '<>'):
        raise Untranslated('StructPack with a non-literal format')
    big, codes = struct_codes(fmt.py)
    if len(codes) != len(pos) - 1:
        return self.do_raise(st, VExc('StructError'))
    self.used_assumptions.add('struct.pack/unpack with literal multi-code standard-size formats (assumed, cross-checked)')
    raises, parts = [], []
    for (code, sz, sg), v in zip(codes, pos[1:]):
        if code == 's':
            bz, c = self.as_bytes(v)
            raises.append((c, 'StructError'))
            # NB: struct pads / truncates a bytes value to the declared size
            fit = z3.Function('struct_fit', T.Bytes, T.I, T.Bytes)(bz, z3.IntVal(sz))
            self.extra_hyps.append(T.blen(fit) == sz)
            chk = st.fork()
            chk.assume(z3.Not(c))
            if not self.feasible(chk, T.blen(bz) != sz):
                parts.append(bz)        # a value of exactly the declared size is packed as it is
            else:
                parts.append(z3.If(T.blen(bz) == sz, bz, fit))
        else:
            x, c = self.as_int(v)
            lo, hi = lo_hi(z3.IntVal(sz), z3.BoolVal(sg))
            raises.append((z3.Or(c, x < lo, x > hi), 'StructError'))
            parts.append(T.bofint(x, z3.IntVal(sz), z3.BoolVal(big), z3.BoolVal(sg)))
    res = parts[0]
    for p_ in parts[1:]:
        res = T.bconcat(res, p_)
    if 'intbytes' not in self.axiom_sets:
        self.axiom_sets.append('intbytes')
    return self.with_raises(st, raises, lambda st: k(st, VBytes(res)))


def m_bi_list(self, st, pos, kws, k):
    if not pos:
        return k(st, self.new_list(st))
    v = pos[0]
    if isinstance(v, (VList, VSeqAbs)):
        r = self.alloc(st)
        if isinstance(v, VList):
            n = self.llen(st, v.z)
            arr = z3.Select(st.heap['lat'], v.z)
        else:
            n = v.n
            j = z3.Int('j!l')
            arr = z3.Lambda([j], to_val(v.elem(j)))
        st.heap['llen'] = z3.Store(st.heap['llen'], r, n)
        st.heap['lat'] = z3.Store(st.heap['lat'], r, arr)
        return k(st, VList(r))
    if isinstance(v, VDyn):
        lst = VList(T.Val.lval(v.z))
        return self.with_raises(st, [(z3.Not(T.Val.is_VL(v.z)), 'TypeError')],
                                lambda st: self.bi_list(st, [lst], kws, k))
    raise Untranslated('list(%s)' % v.kind)


def m_bi_reversed(self, st, pos, kws, k):
    v = pos[0]
    if isinstance(v, VList):
        n = self.llen(st, v.z)
        arr = z3.Select(st.heap['lat'], v.z)
        v = VSeqAbs(n, lambda i: VDyn(z3.Select(arr, i)), 'list')
    if isinstance(v, VSeqAbs):
        r = VSeqAbs(v.n, lambda i, v=v: v.elem(v.n - 1 - i), 'reversed:' + v.tag)
        if hasattr(v, 'src'):
            arr, lo, n, order = v.src
            r.src = (arr, lo, n, 'rev' if order == 'fwd' else 'fwd')
        return k(st, r)
    raise Untranslated('reversed(%s)' % v.kind)


def m_bi_range(self, st, pos, kws, k):
    if len(pos) == 1:
        n, c = self.as_int(pos[0])
        return self.with_raises(st, [(c, 'TypeError')],
                                lambda st: k(st, VSeqAbs(z3.If(n > 0, n, 0), lambda i: VInt(i), 'range')))
    raise Untranslated('range with %d args' % len(pos))


def m_bisect_facts(self, arr, n, xz):
    """assumed semantics of bisect_right on a (pairwise) non-decreasing list of ints:
    0 <= r <= n, all a[:r] <= x < all a[r:]  (instance for this list and x)"""
    res = T.bisect_r(arr, n, xz)
    j = z3.Int('j!b')
    return [z3.And(0 <= res, res <= n),
            safe_forall([j], z3.Implies(z3.And(0 <= j, j < res), T.Val.ival(z3.Select(arr, j)) <= xz),
                        patterns=[z3.Select(arr, j)]),
            safe_forall([j], z3.Implies(z3.And(res <= j, j < n), T.Val.ival(z3.Select(arr, j)) > xz),
                        patterns=[z3.Select(arr, j)])]


def m_bi_bisect_right(self, st, pos, kws, k):
    l, x = pos
    xz, c = self.as_int(x)
    n = self.llen(st, l.z)
    arr = z3.Select(st.heap['lat'], l.z)
    i, j = z3.Ints('i!b j!b')
    self.used_assumptions.add('bisect.bisect_right on a non-decreasing list of ints')
    sorted_ = safe_forall([i, j], z3.Implies(z3.And(0 <= i, i < j, j < n),
                                            T.Val.ival(z3.Select(arr, i)) <= T.Val.ival(z3.Select(arr, j))))
    self.add_obligation(st, 'pre@call', 'bisect_right: list sorted', sorted_, 'bisect precondition')
    for f in self.bisect_facts(arr, n, xz):
        st.assume(f)
    return k(st, VInt(T.bisect_r(arr, n, xz)))


def m_bi_Exception___init__(self, st, pos, kws, k):
    return k(st, VNone())


def m_bi_sys_exc_info(self, st, pos, kws, k):
    return k(st, VTuple([VDyn(fresh('exc_info', T.Val)) for _ in range(3)]))


def m_bi_traceback_format_exception(self, st, pos, kws, k):
    n = fresh('tb_len', T.I)
    st.assume(n >= 0)
    return k(st, VSeqAbs(n, lambda i: VStr(z3.Function('tb_line', T.I, T.S)(i)), 'traceback'))


def m_bm_str_join(self, st, v, pos, kws, k):
    return k(st, VStr(fresh('joined', T.S)))


def m_bm_str_encode(self, st, v, pos, kws, k):
    enc = pos[0] if pos else kws.get('encoding')
    if enc is None or (isinstance(enc, VStr) and enc.py in ('utf-8', 'utf8')):
        from .envmodel import utf8
        return k(st, VBytes(utf8(v.z)))
    if isinstance(enc, VStr) and enc.py is not None:
        return k(st, VBytes(z3.Function('encode_' + enc.py.replace('-', '_'), T.S, T.Bytes)(v.z)))
    return k(st, VBytes(fresh('encoded', T.Bytes)))


def m_bi_str(self, st, pos, kws, k):
    return k(st, VStr(fresh('str', T.S)))


def m_bi_repr(self, st, pos, kws, k):
    return k(st, VStr(fresh('repr', T.S)))


def m_bi_type(self, st, pos, kws, k):
    v = pos[0]
    if isinstance(v, VRef):
        return k(st, VClassSym(self.class_of(v.z), v.cls))
    return k(st, VStr(fresh('type', T.S)))


def m_bi_sorted(self, st, pos, kws, k):
    v = pos[0]
    if isinstance(v, VSeqAbs) and v.tag.startswith('items:'):
        return k(st, v.sorted_view)
    raise Untranslated('sorted(%s)' % v.kind)


def m_bi_zip(self, st, pos, kws, k, starv=None):
    raise Untranslated('zip')


def m_bi_map(self, st, pos, kws, k):
    # map() is lazy: building the iterator calls nothing; only consuming it would
    v = V()
    v.kind = 'lazy-map'
    return k(st, v)


def m_bi_max(self, st, pos, kws, k):
    a, ca = self.as_int(pos[0])
    b, cb = self.as_int(pos[1])
    return self.with_raises(st, [(z3.Or(ca, cb), 'TypeError')], lambda st: k(st, VInt(z3.If(a >= b, a, b))))


def m_bi_re_compile(self, st, pos, kws, k):
    """re.compile(pattern, flags): a regex object whose .pattern is the given text; an invalid pattern text raises
    (re.error) - whether a text is a valid pattern is opaque"""
    b, bad = self.as_bytes(pos[0])
    if 'regex' not in self.axiom_sets:
        self.axiom_sets.append('regex')
    compiled = z3.Function('re_compiled', T.Bytes, T.I)
    valid = z3.Function('re_valid', T.Bytes, T.B)

    def cont(st):
        o = compiled(b)
        st.assume(z3.And(z3.Function('obj_is_regex', T.I, T.B)(o), T.rx_pattern(o) == b))
        return k(st, VDyn(T.Val.VO(o)))
    return self.with_raises(st, [(bad, 'TypeError'), (z3.Not(valid(b)), 'OtherException*')], cont)


def m_bi_re_DEBUG(self, st, pos, kws, k):
    raise Untranslated('re.DEBUG is a constant')


def m_bi_re_escape(self, st, pos, kws, k):
    f = z3.Function('re_escape', T.Bytes, T.Bytes)
    b, bad = self.as_bytes(pos[0])
    return self.with_raises(st, [(bad, 'TypeError')], lambda st: k(st, VBytes(f(b))))


def m_bi_copy_deepcopy(self, st, pos, kws, k):
    v = pos[0]
    if isinstance(v, (VInt, VBool, VBytes, VNone, VStr)):
        return k(st, v)
    if isinstance(v, VRef):
        v = VDyn(T.Val.VR(v.z))
    if isinstance(v, VDyn):
        # deep copy: immutable primitives are returned as they are; anything else is a fresh object
        # structurally equal to the original (assumed; deepcopy contract)
        z = v.z
        prim = z3.Or(T.Val.is_VI(z), T.Val.is_VB(z), T.Val.is_VN(z), T.Val.is_VBy(z), T.Val.is_VS(z))
        s1 = st.fork('deepcopy:prim')
        s1.assume(prim)
        k(s1, v)
        s2 = st.fork('deepcopy:obj')
        s2.assume(z3.Not(prim))
        nz = self.deepcopy_obj(s2, z)
        return k(s2, VDyn(nz))
    raise Untranslated('deepcopy(%s)' % v.kind)


def m_bi_pickle_dumps(self, st, pos, kws, k):
    """pickle.dumps(obj, proto): an opaque blob (immutable) or an exception for unpicklable objects"""
    self.used_assumptions.add('pickle.dumps/loads: loads(dumps(x)) is a fresh object graph sharing nothing mutable with x (assumed)')
    v = pos[0]
    z = to_val(v)
    bad = z3.Function('unpicklable', T.Val, st.heap['slots'].sort(), T.B)(z, st.heap['slots'])
    blob = VDyn(T.Val.VO(z3.Function('pickle_blob', T.Val, T.I)(z)))
    st.assume(z3.Function('is_pickle_blob', T.I, T.B)(z3.Function('pickle_blob', T.Val, T.I)(z)))
    s2 = st.fork('pickle-fails')
    s2.assume(bad)
    self.do_raise(s2, VExc('OtherException*', eid=fresh('eid', T.I)))
    st.assume(z3.Not(bad))
    return k(st, blob)


def m_bi_pickle_loads(self, st, pos, kws, k):
    v = pos[0]
    s2 = st.fork('unpickle-fails')
    self.do_raise(s2, VExc('OtherException*', eid=fresh('eid', T.I)))
    nz = self.deepcopy_obj(st, T.Val.VR(fresh('pickled_src', T.I)))
    return k(st, VDyn(nz))


def m_bi_copy_copy(self, st, pos, kws, k):
    """copy.copy(x): a fresh top-level object whose contents (slots, list elements) are the SAME objects"""
    v = pos[0]
    if isinstance(v, (VInt, VBool, VBytes, VNone, VStr)):
        return k(st, v)
    z = to_val(v)
    r = self.alloc(st, 'Packet')
    src = z3.If(T.Val.is_VL(z), T.Val.lval(z), z3.If(T.Val.is_VR(z), T.Val.rval(z), T.Val.oval(z)))
    for comp in ('slots', 'has', 'llen', 'lat'):
        st.heap[comp] = z3.Store(st.heap[comp], r, z3.Select(st.heap[comp], src))
    res = z3.If(T.Val.is_VL(z), T.Val.VL(r), z3.If(T.Val.is_VR(z), T.Val.VR(r), T.Val.VO(r)))
    prim = z3.Or(T.Val.is_VI(z), T.Val.is_VB(z), T.Val.is_VN(z), T.Val.is_VBy(z), T.Val.is_VS(z))
    return k(st, VDyn(z3.If(prim, z, res)))


def m_deepcopy_obj(self, st, z):
    """Model of copy.deepcopy for a non-primitive Val: a fresh reference of the same constructor;
    its contents are given by the uninterpreted deep-copy relation."""
    self.used_assumptions.add('copy.deepcopy returns a fresh object graph (assumed)')
    nxt0 = st.heap['next']
    n1 = fresh('next', T.I)
    st.assume(n1 > nxt0)
    r = fresh('copy', T.I)
    st.assume(z3.And(nxt0 <= r, r < n1))
    st.heap['next'] = n1
    res = z3.If(T.Val.is_VL(z), T.Val.VL(r), z3.If(T.Val.is_VR(z), T.Val.VR(r), T.Val.VO(r)))
    self._deepcopy_src = (z, r, nxt0)
    # fresh region contents are unconstrained except list length/elements equal when copying a list of primitives
    rr = z3.Int('r!h')
    for key in list(st.heap.keys()):
        if key == 'next':
            continue
        old = st.heap[key]
        fr = fresh('hv', old.sort())
        st.heap[key] = z3.Lambda([rr], z3.If(rr < nxt0, z3.Select(old, rr), z3.Select(fr, rr)))
    # the slots of a copied object hold the same primitives or fresh objects (nothing mutable is shared)
    nm = z3.String('n!dc')
    s_new = z3.Select(z3.Select(st.heap['slots'], r), nm)
    h_new = z3.Select(z3.Select(st.heap['has'], r), nm)
    prim0 = lambda v: z3.Or(T.Val.is_VI(v), T.Val.is_VB(v), T.Val.is_VN(v), T.Val.is_VBy(v), T.Val.is_VS(v))
    ref0 = lambda v: z3.If(T.Val.is_VL(v), T.Val.lval(v), z3.If(T.Val.is_VR(v), T.Val.rval(v), T.Val.oval(v)))
    st.assume(safe_forall([nm], z3.Implies(h_new, z3.Or(prim0(s_new), ref0(s_new) >= nxt0)), patterns=[s_new]))
    # a copied list has the same length; each element is the same primitive or a fresh object
    j = z3.Int('j!dc')
    src = T.Val.lval(z)
    e_old = z3.Select(z3.Select(st.heap['lat'], src), j)
    e_new = z3.Select(z3.Select(st.heap['lat'], r), j)
    prim = lambda v: z3.Or(T.Val.is_VI(v), T.Val.is_VB(v), T.Val.is_VN(v), T.Val.is_VBy(v), T.Val.is_VS(v))
    ref_of = lambda v: z3.If(T.Val.is_VL(v), T.Val.lval(v), z3.If(T.Val.is_VR(v), T.Val.rval(v), T.Val.oval(v)))
    st.assume(z3.Implies(T.Val.is_VL(z), z3.And(
        z3.Select(st.heap['llen'], r) == z3.Select(st.heap['llen'], src),
        safe_forall([j], z3.Implies(z3.And(0 <= j, j < z3.Select(st.heap['llen'], src)),
                                    z3.If(prim(e_old), e_new == e_old,
                                          z3.And(z3.Not(prim(e_new)), ref_of(e_new) >= nxt0))),
                    patterns=[e_new]))))
    return res


def m_bm_kw_get(self, st, kw, pos, kws, k):
    """k.get(name, default) on the keyword dictionary threaded through pack/unpack"""
    key = pos[0]
    default = pos[1] if len(pos) > 1 else VNone()
    if isinstance(key, VStr) and key.py == 'innermost-pkt-pos':
        if isinstance(default, (VInt, VBool)):
            d, _ = self.as_int(default)
            return k(st, VInt(z3.If(T.Kw.has_ipp(kw.z), T.Kw.ipp(kw.z), d)))
        return k(st, VDyn(z3.If(T.Kw.has_ipp(kw.z), T.Val.VI(T.Kw.ipp(kw.z)), to_val(default))))
    raise Untranslated('k.get(%r)' % (key.py if isinstance(key, VStr) else key,))


def m_x_GeneratorExp(self, st, n, k):
    """a generator expression is only supported as the argument of any()/all(): an opaque lazy value"""
    v = V()
    v.kind = 'genexp'
    v.node = n
    return k(st, v)


def _any_all(self, st, pos, k, which):
    v = pos[0]
    if getattr(v, 'kind', '') == 'genexp':
        # over-approximation: any truth value (the element expressions are assumed not to raise and to have no effects)
        self.used_assumptions.add('any()/all() over a generator expression: the result is unconstrained (element expressions assumed pure and non-raising)')
        return k(st, VBool(fresh(which + '_genexp', T.B)))
    raise Untranslated('%s(%s)' % (which, v.kind))


def m_bi_any(self, st, pos, kws, k):
    return _any_all(self, st, pos, k, 'any')


def m_bi_all(self, st, pos, kws, k):
    return _any_all(self, st, pos, k, 'all')


def m_bm_str_splitlines(self, st, v, pos, kws, k):
    """s.splitlines(): an opaque list of lines; empty exactly for the empty string"""
    n = z3.Function('str_line_count', T.S, T.I)(v.z)
    st.assume(z3.And(n >= 0, (n == 0) == (z3.Length(v.z) == 0)))
    line = z3.Function('str_line', T.S, T.I, T.S)
    return k(st, VSeqAbs(n, lambda i: VStr(line(v.z, i)), 'lines'))


def m_bm_dyn_splitlines(self, st, v, pos, kws, k):
    return self.with_raises(st, [(z3.Not(T.Val.is_VS(v.z)), 'AttributeError')],
                            lambda st: self.bm_str_splitlines(st, VStr(T.Val.sval(v.z)), pos, kws, k))


def m_bm_bytes_ljust(self, st, v, pos, kws, k):
    """b.ljust(width, fill): b itself when it is long enough, else b followed by padding (uninterpreted beyond that)"""
    w, bad = self.as_int(pos[0])
    padded = z3.Function('bytes_ljust', T.Bytes, T.I, T.Bytes)(v.z, w)
    st.assume(z3.Implies(T.blen(v.z) < w, z3.And(T.blen(padded) == w, T.bslice(padded, 0, T.blen(v.z)) == v.z)))
    res = z3.If(T.blen(v.z) >= w, v.z, padded)
    return self.with_raises(st, [(bad, 'TypeError')], lambda st: k(st, VBytes(res)))


def m_bm_bytes_rjust(self, st, v, pos, kws, k):
    w, bad = self.as_int(pos[0])
    padded = z3.Function('bytes_rjust', T.Bytes, T.I, T.Bytes)(v.z, w)
    st.assume(z3.Implies(T.blen(v.z) < w, T.blen(padded) == w))
    res = z3.If(T.blen(v.z) >= w, v.z, padded)
    return self.with_raises(st, [(bad, 'TypeError')], lambda st: k(st, VBytes(res)))


def m_bm_dyn_ljust(self, st, v, pos, kws, k):
    return self.with_raises(st, [(z3.Not(T.Val.is_VBy(v.z)), 'AttributeError')],
                            lambda st: self.bm_bytes_ljust(st, VBytes(T.Val.byval(v.z)), pos, kws, k))


def m_bm_dyn_rjust(self, st, v, pos, kws, k):
    return self.with_raises(st, [(z3.Not(T.Val.is_VBy(v.z)), 'AttributeError')],
                            lambda st: self.bm_bytes_rjust(st, VBytes(T.Val.byval(v.z)), pos, kws, k))


def m_bm_bytes_decode(self, st, v, pos, kws, k):
    """bytes.decode(): a str that is a function of the bytes; undecodable input raises UnicodeDecodeError (a ValueError)"""
    ok = z3.Function('bytes_decodable', T.Bytes, T.B)(v.z)
    res = VStr(z3.Function('bytes_decode', T.Bytes, T.S)(v.z))
    return self.with_raises(st, [(z3.Not(ok), 'UnicodeDecodeError')], lambda st: k(st, res))


def m_bm_dyn_decode(self, st, v, pos, kws, k):
    isb = T.Val.is_VBy(v.z)
    return self.with_raises(st, [(z3.Not(isb), 'AttributeError')],
                            lambda st: self.bm_bytes_decode(st, VBytes(T.Val.byval(v.z)), pos, kws, k))


def m_bm_kw_setdefault(self, st, kw, pos, kws, k):
    """k.setdefault(name, value) on the keyword dictionary held in a local: keeps an existing entry"""
    key, val = pos[0], pos[1]
    if isinstance(key, VStr) and key.py == 'innermost-pkt-pos':
        x, c = self.as_int(val)
        newk = kw_with(kw.z, has_ipp=z3.BoolVal(True), ipp=z3.If(T.Kw.has_ipp(kw.z), T.Kw.ipp(kw.z), x))
        # rebind every local that holds this dictionary (value semantics of **k: it is a local of this activation)
        for nm, v in list(st.loc.items()):
            if isinstance(v, VKw) and v.z.eq(kw.z):
                st.loc[nm] = VKw(newk)
        return k(st, VInt(z3.If(T.Kw.has_ipp(kw.z), T.Kw.ipp(kw.z), x)))
    raise Untranslated('k.setdefault(%r)' % (key.py if isinstance(key, VStr) else key,))


def m_bm_dyn_clone(self, st, obj, pos, kws, k):
    """x.clone() on a dynamically typed value: only Prototype has a clone attribute among the classes under
    contract; the receiver being a Prototype is an obligation, the call goes through the clone bodies' contracts"""
    ok = self.isinst(st, obj, 'Prototype')
    self.add_obligation(st.fork(), 'pre@call', 'receiver of .clone() is a Prototype', ok, '')
    st.assume(ok)
    pr = VRef(T.Val.rval(obj.z), 'Prototype')
    return self.call(st, self.read_attr(st, pr, 'clone'), pos, kws, None, None, k)


# ---------------------------------------------------------------------- bound methods of builtin values
def m_call_bound(self, st, obj, attr, pos, kws, k, kwstar=None):
    h = getattr(self, 'bm_%s_%s' % (obj.kind, attr), None)
    if h is None and obj.kind == 'dyn':
        # a method of exactly one class under contract called on a dynamically typed receiver: the receiver
        # being an instance of that class is an obligation; the call then goes through the method's contract
        owners = [cn for cn in self.classes
                  if '%s:%s.%s' % (self.classes[cn].get('module'), cn, attr) in self.contracts]
        if len(owners) == 1:
            cn = owners[0]
            ok = self.isinst(st, obj, cn)
            self.add_obligation(st.fork(), 'pre@call', 'receiver of .%s() is a %s' % (attr, cn), ok, '')
            st.assume(ok)
            recv = VRef(T.Val.rval(obj.z), cn)
            return self.call_contract(st, self.method_contract(cn, attr), [recv] + pos, kws, kwstar, k)
    if h is None:
        raise Untranslated('method %s.%s' % (obj.kind, attr))
    return h(st, obj, pos, kws, k)


def m_bm_list_append(self, st, l, pos, kws, k):
    n = self.llen(st, l.z)
    arr = z3.Select(st.heap['lat'], l.z)
    if 'join' in self.cur.axioms:
        # ground instances of the join axioms for this append (hints; consequences of theory.join_axioms)
        new = z3.Store(arr, n, to_val(pos[0]))
        st.assume(z3.Implies(n >= 0, T.bjoin(new, n + 1) == T.bconcat(T.bjoin(arr, n), T.Val.byval(to_val(pos[0])))))
        st.assume(T.bjoin(new, n) == T.bjoin(arr, n))
    st.heap['lat'] = z3.Store(st.heap['lat'], l.z, z3.Store(arr, n, to_val(pos[0])))
    st.heap['llen'] = z3.Store(st.heap['llen'], l.z, n + 1)
    return k(st, VNone())


def m_bm_list_insert(self, st, l, pos, kws, k):
    i, c = self.as_int(pos[0])
    n = self.llen(st, l.z)
    arr = z3.Select(st.heap['lat'], l.z)
    # python clamps the index
    i1 = z3.If(i < 0, z3.If(i + n < 0, 0, i + n), z3.If(i > n, n, i))
    j = z3.Int('j!ins')
    new = z3.Lambda([j], z3.If(j < i1, z3.Select(arr, j), z3.If(j == i1, to_val(pos[1]), z3.Select(arr, j - 1))))
    st.heap['lat'] = z3.Store(st.heap['lat'], l.z, new)
    st.heap['llen'] = z3.Store(st.heap['llen'], l.z, n + 1)
    return self.with_raises(st, [(c, 'TypeError')], lambda st: k(st, VNone()))


def m_bm_list_pop(self, st, l, pos, kws, k):
    n = self.llen(st, l.z)
    arr = z3.Select(st.heap['lat'], l.z)
    if pos:
        i, c = self.as_int(pos[0])
        i1 = z3.If(i < 0, i + n, i)
    else:
        i1, c = n - 1, z3.BoolVal(False)
    val = VDyn(z3.Select(arr, i1))
    j = z3.Int('j!pop')

    def cont(st):
        st.heap['lat'] = z3.Store(st.heap['lat'], l.z, z3.Lambda([j], z3.If(j < i1, z3.Select(arr, j), z3.Select(arr, j + 1))))
        st.heap['llen'] = z3.Store(st.heap['llen'], l.z, n - 1)
        return k(st, val)
    return self.with_raises(st, [(c, 'TypeError'), (z3.Or(n == 0, i1 < 0, i1 >= n), 'IndexError')], cont)


def m_bm_list_reverse(self, st, l, pos, kws, k):
    n = self.llen(st, l.z)
    arr = z3.Select(st.heap['lat'], l.z)
    j = z3.Int('j!rev')
    st.heap['lat'] = z3.Store(st.heap['lat'], l.z, z3.Lambda([j], z3.Select(arr, n - 1 - j)))
    return k(st, VNone())


def m_bm_str_lower(self, st, v, pos, kws, k):
    if v.py is None:
        raise Untranslated('lower() of a symbolic string')
    return k(st, VStr(v.py.lower()))


def m_bm_str_upper(self, st, v, pos, kws, k):
    if v.py is None:
        raise Untranslated('upper() of a symbolic string')
    return k(st, VStr(v.py.upper()))


def m_bm_conf_get(self, st, c, pos, kws, k):
    key = pos[0]
    default = pos[1] if len(pos) > 1 else VNone()
    if isinstance(key, VDyn):       # a key that is not a str is never present
        kz = T.Val.sval(key.z)
        has = z3.And(T.Val.is_VS(key.z), z3.Select(T.Conf.chas(c.z), kz))
    else:
        kz = key.z
        has = z3.Select(T.Conf.chas(c.z), kz)
    return k(st, VDyn(z3.If(has, z3.Select(T.Conf.cval(c.z), kz), to_val(default))))


def m_bm_bytes_find(self, st, b, pos, kws, k):
    m, c = self.as_bytes(pos[0])
    if len(pos) > 1:
        # s.find(m, a[, e]) == -1 if a > len(s) else (lambda r: -1 if r < 0 else a' + r)(s[a:e].find(m))
        # with a' the clamped start (python semantics of find with slice-like bounds; assumed, cross-checked)
        n = T.blen(b.z)
        a, ca = self.as_int(pos[1])
        e = self.as_int(pos[2])[0] if len(pos) > 2 else None
        l, h = self.clamp_slice(a, e, n)
        sub = T.bslice(b.z, l, h)
        r = T.bfind(sub, m)
        a1 = z3.If(a < 0, a + n, a)
        res = z3.If(z3.Or(a1 > n, r < 0), -1, l + r)
        if 'find' not in self.axiom_sets:
            self.axiom_sets.append('find')
        self.used_assumptions.add('bytes.find(m, start, end) == find on the slice, shifted (assumed, cross-checked)')
        return self.with_raises(st, [(c, 'TypeError'), (ca, 'TypeError')], lambda st: k(st, VInt(res)))
    self.used_assumptions.add('bytes.find returns the least index of an occurrence or -1 (theory.find_axioms)')
    if 'find' not in self.axiom_sets:
        self.axiom_sets.append('find')
    return self.with_raises(st, [(c, 'TypeError')], lambda st: k(st, VInt(T.bfind(b.z, m))))


def m_bm_bytes_join(self, st, b, pos, kws, k):
    l = pos[0]
    if not isinstance(l, VList):
        raise Untranslated('join of %s' % l.kind)
    if not b.z.eq(T.bempty):
        raise Untranslated('join with non-empty separator')
    if 'join' not in self.axiom_sets:
        self.axiom_sets.append('join')
    n = self.llen(st, l.z)
    arr = z3.Select(st.heap['lat'], l.z)
    j = z3.Int('j!jn')
    allbytes = safe_forall([j], z3.Implies(z3.And(0 <= j, j < n), T.Val.is_VBy(z3.Select(arr, j))),
                         patterns=[z3.Select(arr, j)])
    return self.with_raises(st, [(z3.Not(allbytes), 'TypeError')], lambda st: k(st, VBytes(T.bjoin(arr, n))))


def m_bm_struct_unpack(self, st, s, pos, kws, k):
    b, c = self.as_bytes(pos[0])
    size = T.SF.sf_size(s.z)
    self.used_assumptions.add('struct unpack/pack standard-size semantics in terms of int.from_bytes/to_bytes')
    v = VInt(T.bval(b, T.SF.sf_big(s.z), T.SF.sf_signed(s.z)))
    return self.with_raises(st, [(c, 'TypeError'), (T.blen(b) != size, 'StructError')],
                            lambda st: k(st, VTuple([v])))


def m_bm_struct_pack(self, st, s, pos, kws, k):
    v = pos[0]
    x, c = self.as_int(v)
    size = T.SF.sf_size(s.z)
    lo, hi = lo_hi(size, T.SF.sf_signed(s.z))
    self.used_assumptions.add('struct unpack/pack standard-size semantics in terms of int.from_bytes/to_bytes')
    res = VBytes(T.bofint(x, size, T.SF.sf_big(s.z), T.SF.sf_signed(s.z)))
    return self.with_raises(st, [(c, 'StructError'), (z3.Or(x < lo, x > hi), 'StructError')],
                            lambda st: k(st, res))


def m_bm_dyn_to_bytes(self, st, v, pos, kws, k):
    # integer.to_bytes(n, byteorder=..., signed=...) on a dynamic value: AttributeError unless int
    n, cn = self.as_int(pos[0])
    order = kws.get('byteorder', pos[1] if len(pos) > 1 else None)
    signed = self.truth(st, kws.get('signed', VBool(False)))
    big = order.z == z3.StringVal('big')
    little = order.z == z3.StringVal('little')
    x = T.as_int(v.z)
    lo, hi = lo_hi(n, signed)
    self.used_assumptions.add('int.from_bytes/int.to_bytes axioms (theory.int_bytes_axioms)')
    res = VBytes(T.bofint(x, n, big, signed))
    return self.with_raises(st, [(z3.Not(T.is_intlike(v.z)), 'AttributeError'), (cn, 'TypeError'),
                                 (z3.Not(z3.Or(big, little)), 'ValueError'),
                                 (n < 0, 'ValueError'),
                                 (z3.Or(x < lo, x > hi, z3.And(n == 0, x != 0)), 'OverflowError')],
                            lambda st: k(st, res))


m_bm_int_to_bytes = None


def m_bm_dyn_pack_impl(self, st, v, pos, kws, k, kwstar=None):
    obj = VRef(T.Val.rval(v.z), 'Packet')
    isp = z3.And(T.Val.is_VR(v.z), self.inst_of(T.Val.rval(v.z), 'Packet'))
    c = self.contracts['packet:Packet.pack_impl']
    return self.with_raises(st, [(z3.Not(isp), 'AttributeError')],
                            lambda st: self.call_contract(st, c, [obj] + pos, kws, kwstar, k))


def m_bm_dyn_search(self, st, v, pos, kws, k):
    return self.with_raises(st, [(z3.Not(self.is_regex(v.z)), 'AttributeError')],
                            lambda st: self.bm_rx_search(st, VRx(T.Val.oval(v.z)), pos, kws, k))


def m_bm_rx_search(self, st, rx, pos, kws, k):
    b, c = self.as_bytes(pos[0])
    if 'regex' not in self.axiom_sets:
        self.axiom_sets.append('regex')
    self.used_assumptions.add('re: pattern.search(buf, 0) returns None or a match with 0<=start<=end<=len(buf)')
    return self.with_raises(st, [(c, 'TypeError')], lambda st: k(st, VMatch(rx.z, b)))


def m_bm_match_start(self, st, m, pos, kws, k):
    return k(st, VInt(T.rx_start(m.rx, m.buf)))


def m_bm_match_end(self, st, m, pos, kws, k):
    return k(st, VInt(T.rx_end(m.rx, m.buf)))


def m_bm_match_group(self, st, m, pos, kws, k):
    s, e = T.rx_start(m.rx, m.buf), T.rx_end(m.rx, m.buf)
    return k(st, VBytes(T.bslice(m.buf, s, e)))


def m_bm_heapdict_items(self, st, d, pos, kws, k):
    """dict.items() of an int-keyed dict: only usable through sorted(...)"""
    has = z3.Select(st.heap[d.key + '#has'], d.owner)
    val = z3.Select(st.heap[d.key + '#val'], d.owner)
    n = z3.Function('dsize', has.sort(), T.I)(has)
    sk = z3.Function('dsorted_key', has.sort(), T.I, T.I)
    rank = z3.Function('drank', has.sort(), T.I, T.I)
    i, j, kk = z3.Ints('i!d j!d k!d')
    self.used_assumptions.add('sorted(dict.items()) enumerates each key once in increasing key order')
    self.extra_hyps += [
        n >= 0,
        safe_forall([i], z3.Implies(z3.And(0 <= i, i < n), z3.And(z3.Select(has, sk(has, i)), rank(has, sk(has, i)) == i)),
                  patterns=[sk(has, i)]),
        safe_forall([kk], z3.Implies(z3.Select(has, kk), z3.And(0 <= rank(has, kk), rank(has, kk) < n,
                                                              sk(has, rank(has, kk)) == kk)),
                  patterns=[z3.Select(has, kk)]),
        safe_forall([i, j], z3.Implies(z3.And(0 <= i, i < j, j < n), sk(has, i) < sk(has, j)),
                  patterns=[z3.MultiPattern(sk(has, i), sk(has, j))]),
    ]
    view = VSeqAbs(n, lambda idx: VTuple([VInt(sk(has, idx)), self.wrap(d.vkind, z3.Select(val, sk(has, idx)))]),
                   'sorteditems')
    v = VSeqAbs(n, None, 'items:' + d.key)
    v.sorted_view = view
    return k(st, v)


# ---------------------------------------------------------------------- classes (constructors)
def m_call_class(self, st, cls, pos, kws, kwstar, k):
    if cls in EXC_NAMES or cls in ('StructError', 'ByteBoundaryError') and cls not in self.classes:
        return k(st, VExc(cls))
    if cls == 'PacketError' and 'PacketError' not in self.classes:
        return k(st, VExc(cls))
    if cls in self.classes:
        r = self.alloc(st, cls)
        obj = VRef(r, cls)
        st.assume(self.exact_class(r, cls))
        c = self.method_contract(cls, '__init__') or self.contracts.get('role:%s.__init__' % cls)
        if c is None:
            raise Untranslated('no contract for %s.__init__' % cls)
        if cls == 'PacketError':
            return self.call_contract(st, c, [obj] + pos, kws, kwstar, lambda st, _: k(st, VExc('PacketError', ref=r)))
        return self.call_contract(st, c, [obj] + pos, kws, kwstar, lambda st, _: k(st, obj))
    raise Untranslated('constructor of %s' % cls)


def m_exact_class(self, r, cls):
    f = z3.Function('class_is_' + cls, T.I, T.B)
    return z3.And(f(r), self.inst_of(r, cls))


# ---------------------------------------------------------------------- dynamic / role callables
def m_cb_apply(self, st, fnid, shape, args):
    """Result and raise-flag of a user callback: deterministic functions of the callable,
    the packet heap and the arguments (role contract, DESIGN 2.3)."""
    comps = [st.heap['slots'], st.heap['has'], st.heap['llen'], st.heap['lat']]
    sorts = [T.I] + [c.sort() for c in comps] + [a.sort() for a in args]
    fres = z3.Function('cb_res_' + shape, *(sorts + [T.Val]))
    frz = z3.Function('cb_raises_' + shape, *(sorts + [T.B]))
    allargs = [fnid] + comps + list(args)
    return fres(*allargs), frz(*allargs)


def m_call_cb(self, st, fnid, pos, kws, kwstar, k):
    kws = dict(kws)
    for i, v in enumerate(pos):     # positional arguments are named p0, p1, ...
        kws['p%d' % i] = v
    names = sorted(kws.keys())
    args = []
    shape = []
    for nme in names:
        v = kws[nme]
        if isinstance(v, VRef):
            args.append(v.z)
            shape.append(nme + 'R')
        else:
            z = getattr(v, 'z', None)
            if z is None:
                raise Untranslated('callback argument %s of kind %s' % (nme, v.kind))
            args.append(z)
            shape.append(nme + v.kind[0])
    if kwstar is not None:
        args.append(kwstar.z)
        shape.append('kw')
    self.used_assumptions.add('user callables are pure and deterministic in (packet heap, arguments) (role contract)')
    res, rz = self.cb_apply(st, fnid, '_'.join(shape), args)
    s2 = st.fork('cb-raises')
    s2.assume(rz)
    # (a user callback is assumed not to raise a PacketError of its own)
    self.do_raise(s2, VExc('OtherException*', eid=fresh('eid', T.I)))
    st.assume(z3.Not(rz))
    return k(st, VDyn(res))


def m_call_apply_seq(self, st, f, seq, k):
    """f(*seq) for a dynamic callable: the result is an uninterpreted function of the callable, the
    operand array and the operand count; the ORDER in which the operands are taken from the array is
    part of the function symbol (reversed slice vs. slice), so swapping it changes the term."""
    if not isinstance(seq, VSeqAbs) or not hasattr(seq, 'src'):
        raise Untranslated('f(*%s)' % getattr(seq, 'tag', seq.kind))
    arr, lo, n, order = seq.src
    fn = z3.Function('apply_' + order, T.I, z3.ArraySort(T.I, T.Val), T.I, T.I, T.Val)
    rz = z3.Function('apply_raises_' + order, T.I, z3.ArraySort(T.I, T.Val), T.I, T.I, T.B)
    fid = callable_id(f.z)
    s2 = st.fork('op-raises')
    s2.assume(rz(fid, arr, lo, n))
    self.do_raise(s2, VExc('OtherException*', eid=fresh('eid', T.I)))
    st.assume(z3.Not(rz(fid, arr, lo, n)))
    return self.with_raises(st, [(z3.Not(self.is_callable(f.z)), 'TypeError')],
                            lambda st: k(st, VDyn(fn(fid, arr, lo, n))))


def m_call_dyn(self, st, f, pos, kws, kwstar, k):
    g = self.cur.call_ghost.get(getattr(f, 'origin', None)) if self.cur is not None else None

    def k2(st, v):
        if g is not None:       # sidecar ghost: the value this callback returned in this execution
            if isinstance(g, tuple):    # (name, 'truth'): its truthiness at the time of the call
                st.ghost[g[0]] = VBool(self.truth(st, v))
                st.ghost[g[0] + '_called'] = VBool(True)
            else:
                st.ghost[g] = v
                st.ghost[g + '_called'] = VBool(True)
        return k(st, v)
    return self.with_raises(st, [(z3.Not(self.is_callable(f.z)), 'TypeError')],
                            lambda st: self.call_cb(st, callable_id(f.z), pos, kws, kwstar, k2))


def callable_id(z):
    return z3.If(T.Val.is_VF(z), T.Val.fval(z), T.Val.rval(z))


def m_call_role(self, st, f, pos, kws, kwstar, k):
    role, fid = f.payload[0], f.payload[1]
    if role == 'cb':
        return self.call_cb(st, fid, pos, kws, kwstar, k)
    c = self.contracts.get('role:' + role)
    if c is None:
        raise Untranslated('role ' + role)
    first = list(c.params.keys())[0]
    kind = c.params[first]
    return self.call_contract(st, c, [self.wrap(kind, fid)] + pos, kws, kwstar, k)


def m_x_JoinedStr(self, st, n, k):
    """f-string: a deterministic (uninterpreted) function of its constant template and its formatted values"""
    parts, exprs = [], []
    for v in n.values:
        if isinstance(v, ast.Constant):
            parts.append(v.value)
        elif isinstance(v, ast.FormattedValue) and v.format_spec is None and v.conversion == -1:
            parts.append('\x00')
            exprs.append(v.value)
        else:
            raise Untranslated('f-string with conversions / format specs')
    template = ''.join(parts)

    def got(st, vs):
        args = [to_val(v) for v in vs]
        f = z3.Function('fstring%d' % len(args), *([T.S] + [T.Val] * len(args) + [T.S]))
        return k(st, VStr(f(z3.StringVal(template), *args)))
    return self.ev_list(st, exprs, got)


def m_s_Global(self, st, s, k):
    """`global x` in a generated function: the generic loop keeps no state between calls, so generated code that
    declares module-level state cannot be equivalent to it on every history (the module namespace even survives a
    redefinition of a same-named class, C15).  Reported as a failing named obligation in translation-validation mode."""
    if getattr(self, 'tv_mode', False):
        self.add_obligation(State(), 'structure', 'generated code keeps no module-level state (global %s)' % ', '.join(s.names),
                            z3.BoolVal(False), '')
        for nm in s.names:
            st.loc[nm] = VDyn(fresh('global_' + nm, T.Val))
        return k(st)
    raise Untranslated('statement Global')


def m_s_With(self, st, s, k):
    """with <expr> as <name>: body  - for the environment's file objects: every way out of the body closes the file
    (what was written reaches the disk) first, in the outer context; an exception in the body then propagates"""
    if len(s.items) != 1:
        raise Untranslated('with statement with several items')
    item = s.items[0]

    def got(st, v):
        if not (isinstance(v, VEnvObj) and v.cls == 'File'):
            raise Untranslated('with statement on %s' % v.kind)
        if item.optional_vars is not None:
            if not isinstance(item.optional_vars, ast.Name):
                raise Untranslated('with ... as <pattern>')
            st.loc[item.optional_vars.id] = v
        outer0 = st.ctx

        def then(cont):
            def w(st2, *a):
                st2.ctx = outer0
                self.env_file_close(st2, v)
                return cont(st2, *a)
            return w
        st.ctx = Ctx(then(outer0.on_return), then(outer0.on_raise),
                     then(outer0.on_break) if outer0.on_break else None,
                     then(outer0.on_continue) if outer0.on_continue else None)

        def normal(st2):
            st2.ctx = outer0
            self.env_file_close(st2, v)
            return k(st2)
        return self.exec_block(st, s.body, normal)
    return self.ev(st, item.context_expr, got)


def m_s_ImportFrom(self, st, s, k):
    for a in s.names:
        key = '%s.%s' % (s.module, a.name)
        if key == 'bisturi.packet.Packet' and 'PktClass' in self.classes:
            # the Packet base class object: its pack_impl / unpack_impl are the generic drivers
            pc = z3.Int('PACKET_BASE_CLASS')
            st.loc[a.asname or a.name] = VRef(pc, 'PktClass')
            st.assume(z3.And(z3.Select(st.heap['PktClass.pack_impl'], pc) == T.Val.VF(z3.Int('GENERIC_PACK_IMPL')),
                             z3.Select(st.heap['PktClass.unpack_impl'], pc) == T.Val.VF(z3.Int('GENERIC_UNPACK_IMPL'))))
        elif a.name in self.classes:
            pass        # a class of the schema: the name resolves to the class as usual
        elif a.name in self.module_funcs:
            # a function of the library that is under contract (or a role): the local name denotes it
            st.loc[a.asname or a.name] = VFunc('contract', self.module_funcs[a.name], None)
        else:
            raise Untranslated('import of %s' % key)
    return k(st)


# ====================================================================== statements
def m_exec_block(self, st, stmts, k):
    if not stmts:
        return k(st)
    s = stmts[0]
    m = getattr(self, 's_' + type(s).__name__, None)
    if m is None:
        raise Untranslated('statement ' + type(s).__name__)
    return m(st, s, lambda st: self.exec_block(st, stmts[1:], k))


def m_s_Pass(self, st, s, k):
    return k(st)


def m_s_Expr(self, st, s, k):
    if isinstance(s.value, ast.Constant):
        return k(st)
    if isinstance(s.value, ast.ListComp):
        return self.listcomp_effect(st, s.value, k)
    return self.ev(st, s.value, lambda st, v: k(st))


def m_s_Return(self, st, s, k):
    if s.value is None:
        return st.ctx.on_return(st, VNone())
    return self.ev(st, s.value, lambda st, v: st.ctx.on_return(st, v))


def m_s_Assign(self, st, s, k):
    def got(st, v):
        def go(st, targets):
            if not targets:
                return k(st)
            return self.assign(st, targets[0], v, lambda st: go(st, targets[1:]))
        return go(st, s.targets)
    return self.ev(st, s.value, got)


def m_assign(self, st, target, v, k):
    if isinstance(target, ast.Name):
        st.loc[target.id] = v
        return k(st)
    if isinstance(target, (ast.Tuple, ast.List)):
        n = len(target.elts)
        if isinstance(v, VTuple):
            if len(v.items) != n:
                return self.do_raise(st, VExc('ValueError'))

            def go(st, i):
                if i == n:
                    return k(st)
                return self.assign(st, target.elts[i], v.items[i], lambda st: go(st, i + 1))
            return go(st, 0)
        if isinstance(v, VSeqAbs):
            def cont(st):
                def go(st, i):
                    if i == n:
                        return k(st)
                    return self.assign(st, target.elts[i], v.elem(z3.IntVal(i)), lambda st: go(st, i + 1))
                return go(st, 0)
            return self.with_raises(st, [(v.n != n, 'ValueError')], cont)
        if isinstance(v, VDyn):
            from .values import tuple_parts
            ist, items = tuple_parts(v.z, n)
            self.need_tuple_axioms = True

            def cont(st):
                def go(st, i):
                    if i == n:
                        return k(st)
                    return self.assign(st, target.elts[i], VDyn(items[i]), lambda st: go(st, i + 1))
                return go(st, 0)
            return self.with_raises(st, [(z3.Not(ist), 'TypeError')], cont)
        raise Untranslated('unpacking of %s' % v.kind)
    if isinstance(target, ast.Attribute):
        def got(st, base):
            if isinstance(base, VRef):
                owner, kind = self.attr_kind(base.cls, target.attr)
                if kind is None and base.cls == 'Packet':
                    self.slot_set(st, base.z, z3.StringVal(target.attr), to_val(v))
                    return k(st)
                if kind is None:
                    # an attribute the schema does not declare: it lives in the object's dynamic attribute map (the
                    # same has/slots arrays as packet slots), so frames see the write
                    self.slot_set(st, base.z, z3.StringVal('.' + target.attr), to_val(v))
                    return k(st)
                self.write_attr(st, base, target.attr, v)
                return k(st)
            if isinstance(base, VDyn):
                # attribute assignment on a dynamically typed receiver: one path per schema class that declares the
                # attribute (root classes only), anything else is outside the value model (AttributeError path)
                owners = [c for c in self.classes if target.attr in self.classes[c].get('attrs', {})]
                roots = [c for c in owners if not any(o != c and self.is_subclass(c, o) for o in owners)]
                if not roots:
                    raise Untranslated('assignment to attribute .%s of a dynamic value' % target.attr)
                rest = st
                for cls in roots:
                    isobj = z3.And(T.Val.is_VR(base.z), self.inst_of(T.Val.rval(base.z), cls))
                    s2 = rest.fork('recv-is-' + cls)
                    s2.assume(isobj)
                    if self.feasible(s2, z3.BoolVal(True)):
                        self.write_attr(s2, VRef(T.Val.rval(base.z), cls), target.attr, v)
                        k(s2)
                    rest = rest.fork()
                    rest.assume(z3.Not(isobj))
                if self.feasible(rest, z3.BoolVal(True)):
                    self.do_raise(rest, VExc('AttributeError'))
                return
            raise Untranslated('attribute assignment on %s' % base.kind)
        return self.ev(st, target.value, got)
    if isinstance(target, ast.Subscript):
        def got(st, vs):
            base, idx = vs
            if isinstance(base, VHeapDict):
                kz = self.unwrap(base.kkind, idx)
                hk, vk = base.key + '#has', base.key + '#val'
                st.heap[hk] = z3.Store(st.heap[hk], base.owner, z3.Store(z3.Select(st.heap[hk], base.owner), kz, True))
                st.heap[vk] = z3.Store(st.heap[vk], base.owner,
                                       z3.Store(z3.Select(st.heap[vk], base.owner), kz, self.unwrap(base.vkind, v)))
                return k(st)
            if isinstance(base, VKw) and isinstance(idx, VStr) and idx.py == 'innermost-pkt-pos':
                x, c = self.as_int(v)
                newk = kw_with(base.z, has_ipp=z3.BoolVal(True), ipp=x)
                # k is a local name
                if isinstance(target.value, ast.Name):
                    st.loc[target.value.id] = VKw(newk)
                    return k(st)
            if isinstance(base, VList):
                i, c = self.as_int(idx)
                n = self.llen(st, base.z)

                def cont(st):
                    arr = z3.Select(st.heap['lat'], base.z)
                    st.heap['lat'] = z3.Store(st.heap['lat'], base.z, z3.Store(arr, self.norm_index(i, n), to_val(v)))
                    return k(st)
                return self.with_raises(st, [(z3.Or(i >= n, i < -n), 'IndexError')], cont)
            if isinstance(base, VConf) and isinstance(target.value, ast.Name) and isinstance(idx, (VStr, VDyn)):
                # a keyword dictionary held in a local: value semantics (the update is not seen through other
                # references to the same dict - recorded as an assumption)
                self.used_assumptions.add('dict parameters (defaults, options) have value semantics: an update made by a callee is not seen by its caller')
                kz = idx.z if isinstance(idx, VStr) else T.Val.sval(idx.z)
                st.loc[target.value.id] = VConf(T.Conf.mkconf(z3.Store(T.Conf.chas(base.z), kz, True),
                                                               z3.Store(T.Conf.cval(base.z), kz, to_val(v))))
                return k(st)
            raise Untranslated('subscript assignment on %s' % base.kind)
        return self.ev_list(st, [target.value, target.slice], got)
    raise Untranslated('assignment target ' + type(target).__name__)


def m_s_AugAssign(self, st, s, k):
    load = ast.copy_location(ast.BinOp(left=to_load(s.target), op=s.op, right=s.value), s)
    return self.ev(st, load, lambda st, v: self.assign(st, s.target, v, k))


def to_load(t):
    import copy
    t2 = copy.deepcopy(t)
    for n in ast.walk(t2):
        if hasattr(n, 'ctx'):
            n.ctx = ast.Load()
    return t2


def m_narrow(self, st, test):
    """after a successful isinstance(name, Class) test the local is known to be an object of that class"""
    if isinstance(test, ast.Call) and isinstance(test.func, ast.Name) and test.func.id == 'isinstance' \
            and len(test.args) == 2 and isinstance(test.args[0], ast.Name) and isinstance(test.args[1], ast.Name):
        nm, cls = test.args[0].id, test.args[1].id
        v = st.loc.get(nm)
        if isinstance(v, VDyn) and cls in self.classes:
            st.loc[nm] = VRef(T.Val.rval(v.z), cls)


def m_s_If(self, st, s, k):
    def got(st, c):
        t = self.truth(st, c)

        def then(st):
            self.narrow(st, s.test)
            return self.exec_block(st, s.body, k)

        def otherwise(st):
            if isinstance(s.test, ast.UnaryOp) and isinstance(s.test.op, ast.Not):
                self.narrow(st, s.test.operand)     # `if not isinstance(x, C): <leave>` - x is a C afterwards
            return self.exec_block(st, s.orelse, k)
        self.branch(st, t, then, otherwise, 'if@%d:' % s.lineno_rel)
    return self.ev(st, s.test, got)


def m_s_Assert(self, st, s, k):
    def got(st, c):
        t = self.truth(st, c)
        self.used_assumptions.add('assert statements are live (no python -O)')

        def cont(st):
            self.narrow(st, s.test)
            return k(st)
        return self.with_raises(st, [(z3.Not(t), 'AssertionError')], cont)
    return self.ev(st, s.test, got)


def m_s_Raise(self, st, s, k):
    if s.exc is None:
        if st.cur_exc is None:
            raise Untranslated('bare raise outside handler')
        return self.do_raise(st, st.cur_exc)

    if isinstance(s.exc, ast.Call):
        # a NEW exception object raised by this body itself (not one propagated from a callee or re-raised)
        st.ghost['g_own_raise'] = VBool(True)

    def got(st, v):
        if isinstance(v, VFunc) and v.tag == 'class':
            return self.call_class(st, v.payload[0], [], {}, None, lambda st, e: self.do_raise(st, e))
        if isinstance(v, VExc):
            return self.do_raise(st, v)
        if isinstance(v, VRef) and v.cls == 'PacketError':
            return self.do_raise(st, VExc('PacketError', ref=v.z))
        raise Untranslated('raise of %s' % v.kind)
    return self.ev(st, s.exc, got)


def m_s_Delete(self, st, s, k):
    def go(st, targets):
        if not targets:
            return k(st)
        t = targets[0]
        if isinstance(t, ast.Attribute):
            def got(st, base):
                owner, kind = self.attr_kind(base.cls, t.attr)
                key = '%s.%s?' % (owner, t.attr)
                if key not in st.heap:
                    raise Untranslated('del of non-optional attribute %s' % t.attr)
                isset = z3.Select(st.heap[key], base.z)

                def cont(st):
                    st.heap[key] = z3.Store(st.heap[key], base.z, False)
                    return go(st, targets[1:])
                return self.with_raises(st, [(z3.Not(isset), 'AttributeError')], cont)
            return self.ev(st, t.value, got)
        if isinstance(t, ast.Subscript) and isinstance(t.slice, ast.Slice):
            def got(st, vs):
                base = vs[0]
                if not isinstance(base, VList) or t.slice.lower is not None or t.slice.step is not None:
                    raise Untranslated('del slice form')
                hi, c = self.as_int(vs[1])
                n = self.llen(st, base.z)
                _, h = self.clamp_slice(None, hi, n)
                arr = z3.Select(st.heap['lat'], base.z)
                j = z3.Int('j!del')
                st.heap['lat'] = z3.Store(st.heap['lat'], base.z, z3.Lambda([j], z3.Select(arr, j + h)))
                st.heap['llen'] = z3.Store(st.heap['llen'], base.z, n - h)
                return go(st, targets[1:])
            return self.ev_list(st, [t.value, t.slice.upper], got)
        raise Untranslated('del target')
    return go(st, s.targets)


def m_s_Try(self, st, s, k):
    if s.finalbody:
        # try ... finally F  ==  every way out of the (inner) try statement runs F first, in the outer context;
        # whatever F does itself (raise, return) then takes precedence, as in python
        outer0 = st.ctx
        inner = ast.Try(body=s.body, handlers=s.handlers, orelse=s.orelse, finalbody=[])
        ast.copy_location(inner, s)
        fin = s.finalbody

        def then(cont):
            def w(st2, *a):
                st2.ctx = outer0
                return self.exec_block(st2, fin, lambda st3: cont(st3, *a))
            return w
        st.ctx = Ctx(then(outer0.on_return), then(outer0.on_raise),
                     then(outer0.on_break) if outer0.on_break else None,
                     then(outer0.on_continue) if outer0.on_continue else None)

        def normal(st2):
            st2.ctx = outer0
            return self.exec_block(st2, fin, k)
        if not s.handlers and not s.orelse:
            return self.exec_block(st, s.body, normal)
        return self.s_Try(st, inner, normal)
    outer = st.ctx

    def on_raise(st2, exc):
        st2.ctx = outer
        self.dispatch_handlers(st2, s.handlers, exc, k)

    st.ctx = outer.replace(on_raise=on_raise)

    def after_body(st2):
        st2.ctx = outer
        return self.exec_block(st2, s.orelse, k)
    # return/break/continue inside the try body must also restore the context
    def wrap(fn):
        if fn is None:
            return None

        def w(st2, *a):
            st2.ctx = outer
            return fn(st2, *a)
        return w
    st.ctx.on_return = wrap(outer.on_return)
    st.ctx.on_break = wrap(outer.on_break)
    st.ctx.on_continue = wrap(outer.on_continue)
    return self.exec_block(st, s.body, after_body)


def m_dispatch_handlers(self, st, handlers, exc, k):
    """Python semantics: first matching handler; an unknown exception class forks."""
    if not handlers:
        return self.do_raise(st, exc)
    h = handlers[0]
    names = handler_classes(h)

    def run(st2, e):
        saved = st2.cur_exc
        st2.cur_exc = e
        if h.name:
            st2.loc[h.name] = VRef(e.ref, 'PacketError') if (e.cls == 'PacketError' and e.ref is not None) else e

        def done(st3):
            st3.cur_exc = saved
            return k(st3)
        return self.exec_block(st2, h.body, done)

    if exc.cls not in ('Exception*', 'OtherException*'):
        if names is None or any(exc_le(exc.cls, nme) for nme in names):
            return run(st, exc)
        return self.dispatch_handlers(st, handlers[1:], exc, k)
    # unknown subclass of Exception
    if names is None or any(exc_le('Exception', nme) for nme in names):
        return run(st, exc)
    # fork: the exception is an instance of one of the named classes, or it is not
    for nme in names:
        if exc.cls == 'OtherException*' and nme == 'PacketError':
            continue        # by definition not a PacketError
        isit = self.exc_is(exc, nme)
        s2 = st.fork('exc-is-' + nme)
        s2.assume(isit)
        e2 = VExc(nme, ref=exc.ref, eid=exc.eid)
        run(s2, e2)
        st = st.fork()
        st.assume(z3.Not(isit))
    return self.dispatch_handlers(st, handlers[1:], exc, k)


def m_exc_is(self, exc, cls):
    f = z3.Function('exc_is_' + cls, T.I, T.B)
    return f(exc.eid if exc.eid is not None else z3.IntVal(-1))


def handler_classes(h):
    if h.type is None:
        return None
    def nm(t):
        if isinstance(t, ast.Name):
            return t.id
        if isinstance(t, ast.Attribute):
            q = '%s.%s' % (getattr(t.value, 'id', '?'), t.attr)
            return {'struct.error': 'StructError', 'Bits.ByteBoundaryError': 'ByteBoundaryError'}.get(q, t.attr)
        raise Untranslated('handler type')
    if isinstance(h.type, ast.Tuple):
        return [nm(t) for t in h.type.elts]
    return [nm(h.type)]


from .symex import exc_le, EXC_PARENT, Ctx, State, Contract, LoopSpec, Obligation  # noqa: E402


# ---------------------------------------------------------------------- loops
def assigned_names(stmts):
    out = []

    class V(ast.NodeVisitor):
        def visit_Name(self, n):
            if isinstance(n.ctx, ast.Store) and n.id not in out:
                out.append(n.id)

        def visit_Lambda(self, n):
            pass

        def visit_FunctionDef(self, n):
            pass
    for s in stmts:
        V().visit(s)
    return out


def m_loop_spec(self, s):
    idx = self.loop_ordinals[id(s)]
    spec = self.cur.loops.get(idx)
    if spec is None:
        raise Untranslated('loop #%d of %s has no invariant' % (idx, self.cur.name))
    return idx, spec


def m_loop_head(self, st, idx, spec, assigned, itname):
    """assert invariant on entry, havoc, assume invariant. Returns (entry snapshot, it)"""
    env0 = self.fn_env
    def inv_env(st, it):
        # in loop invariants names denote the CURRENT values of the locals (parameters included);
        # entry_<param> denotes the value of a parameter at function entry
        e = {}
        for nme, v in env0.items():
            e['entry_' + nme] = v
            e[nme] = v
        for nme, v in st.loc.items():
            if v is not None:
                e[nme] = v
        e.update({g: v for g, v in st.ghost.items() if isinstance(v, V)})
        e['it'] = VInt(it)
        return e
    entry = st.fork()
    for j, inv in enumerate(spec.invariants):
        g = self.spec_goal(st, inv, inv_env(st, z3.IntVal(0)), old=self.fn_pre)
        self.add_obligation(st, 'inv-entry', 'loop%d inv#%d entry' % (idx, j), g, inv)
    # havoc locals
    for nme in assigned:
        cur = st.loc.get(nme)
        kind = spec.kinds.get(nme)
        if kind is not None:
            st.loc[nme] = self.wrap(kind, fresh(nme, self.kind_sort(kind)))
        elif cur is not None and hasattr(cur, 'z') and not isinstance(cur, VRef):
            st.loc[nme] = type(cur)(fresh(nme, cur.z.sort()))
        elif isinstance(cur, VRef):
            st.loc[nme] = VRef(fresh(nme, T.I), cur.cls)
        else:
            st.loc[nme] = None
    # ghost variables written inside the loop (iteration ghost code, call effects) are unknown at the head
    for g in list(spec.ghost.keys()) + list(spec.ghost_havoc):
        cur = st.ghost.get(g)
        if isinstance(cur, V) and hasattr(cur, 'z') and not isinstance(cur, VRef):
            st.ghost[g] = type(cur)(fresh(g, cur.z.sort()))
        elif isinstance(cur, VRef):
            st.ghost[g] = VRef(fresh(g, T.I), cur.cls)
    # havoc heap within the function's frame
    # everything allocated since function entry is local to this activation and may change too
    lc = self.loop_frame_contract
    if spec.modifies is not None:
        import copy as _copy
        lc = _copy.copy(lc)
        lc.modifies = list(spec.modifies)
    st.loop_contract = lc
    self.havoc_modifies(st, entry, lc, self.fn_env,
                        nxt0=self.fn_pre.heap['next'], alloc=True, full=True)
    it = fresh('it', T.I)
    st.assume(it >= 0)
    for j, inv in enumerate(spec.invariants):
        st.assume(self.spec_bool(st, inv, inv_env(st, it), old=self.fn_pre))
    return entry, it, inv_env


def m_loop_back_edge(self, st, idx, spec, it1, inv_env, entry):
    for j, inv in enumerate(spec.invariants):
        g = self.spec_goal(st, inv, inv_env(st, it1), old=self.fn_pre)
        self.add_obligation(st, 'inv-preserved', 'loop%d inv#%d preserved' % (idx, j), g, inv)
    lc = self.loop_frame_contract
    if spec.modifies is not None:
        import copy as _copy
        lc = _copy.copy(lc)
        lc.modifies = list(spec.modifies)
    self.check_frame(st, entry, lc, 'loop%d frame' % idx)


def m_unroll_for(self, st, s, items, k):
    """a loop over a concrete tuple is executed item by item (translation validation mode)"""
    outer = st.ctx

    def go(st, i):
        st.ctx = outer
        if i == len(items):
            return k(st)

        def on_break(st2):
            st2.ctx = outer
            return k(st2)
        st.ctx = wrap_ctx(outer, on_break=on_break, on_continue=lambda st2: go(st2, i + 1))
        return self.assign(st, s.target, items[i], lambda st2: self.exec_block(st2, s.body, lambda st3: go(st3, i + 1)))
    return go(st, 0)


def m_s_For(self, st, s, k):
    if s.orelse:
        raise Untranslated('for/else')
    if getattr(self, 'tv_mode', False):
        def got_tv(st, seq):
            if isinstance(seq, VTuple):
                return self.unroll_for(st, s, seq.items, k)
            raise Untranslated('translation validation: loop over %s' % seq.kind)
        return self.ev(st, s.iter, got_tv)
    if self.cur.loops.get(self.loop_ordinals[id(s)]) is None and isinstance(s.iter, (ast.Tuple, ast.List)) \
            and len(s.iter.elts) <= 8:
        # a loop over a literal tuple has a fixed, small number of iterations: executed item by item (complete)
        return self.ev_list(st, list(s.iter.elts), lambda st, items: self.unroll_for(st, s, items, k))
    if self.cur.loops.get(self.loop_ordinals[id(s)]) is None and isinstance(s.iter, ast.Name) \
            and isinstance(st.loc.get(s.iter.id), VTuple) and len(st.loc[s.iter.id].items) <= 8:
        # ... or over a local bound to a tuple of known length (the *args of an inlined helper)
        return self.unroll_for(st, s, st.loc[s.iter.id].items, k)
    idx, spec = self.loop_spec(s)

    def got_iter(st, seq):
        if isinstance(seq, VDyn):
            # iterating a dynamic value: a list (anything else that is iterable is outside the value model)
            lst = VList(T.Val.lval(seq.z))
            return self.with_raises(st, [(z3.Not(T.Val.is_VL(seq.z)), 'TypeError')], lambda st: got_iter(st, lst))
        if isinstance(seq, VList):
            n0 = self.llen(st, seq.z)
            arr0 = z3.Select(st.heap['lat'], seq.z)
            seq = VSeqAbs(n0, lambda i: VDyn(z3.Select(arr0, i)), 'list')
        if isinstance(seq, VTuple):
            items = seq.items
            def elem(i, items=items):
                r = items[-1]
                for j in range(len(items) - 2, -1, -1):
                    r = merge(i == j, items[j], r)
                return r
            seq = VSeqAbs(z3.IntVal(len(items)), elem, 'tuple')
        if not isinstance(seq, VSeqAbs) or seq.elem is None:
            raise Untranslated('for over %s' % seq.kind)
        assigned = assigned_names([s])
        entry, it, inv_env = self.loop_head(st, idx, spec, assigned, 'it')
        st.assume(it <= seq.n)
        outer = st.ctx
        # iteration
        s1 = st.fork('loop%d:iter' % idx)
        s1.assume(it < seq.n)

        def after_body(st2):
            st2.ctx = outer
            self.loop_back_edge(st2, idx, spec, it + 1, inv_env, entry)

        def on_break(st2):
            st2.ctx = outer
            st2.path.append('break')
            k(st2)
        s1.ctx = wrap_ctx(outer, on_break=on_break, on_continue=after_body)

        def start_iter(st2):
            st2.ghost['it'] = VInt(it)
            for g, expr in spec.ghost.items():      # sidecar ghost code: g := expr at iteration start
                st2.ghost[g] = self.spec(st2, expr, inv_env(st2, it), old=self.fn_pre)
            return self.exec_block(st2, s.body, after_body)
        self.assign(s1, s.target, seq.elem(it), start_iter)
        # exit
        s2 = st.fork('loop%d:exit' % idx)
        s2.assume(it == seq.n)
        s2.ghost['it%d' % idx] = it
        k(s2)
    return self.ev(st, s.iter, got_iter)


def wrap_ctx(outer, on_break, on_continue):
    def wrap(fn):
        if fn is None:
            return None

        def w(st2, *a):
            st2.ctx = outer
            return fn(st2, *a)
        return w
    return Ctx(wrap(outer.on_return), wrap(outer.on_raise), on_break, on_continue)


def m_s_While(self, st, s, k):
    if s.orelse:
        raise Untranslated('while/else')
    # zero iterations: if the condition is false on entry the loop is skipped (no cut needed)
    def got0(st, c):
        t = self.truth(st, c)
        self.branch(st, t, lambda st: self.while_cut(st, s, k), k, 'while-entry:')
    return self.ev(st, s.test, got0)


def m_while_cut(self, st, s, k):
    idx, spec = self.loop_spec(s)
    assigned = assigned_names(s.body)
    entry, it, inv_env = self.loop_head(st, idx, spec, assigned, 'it')
    outer = st.ctx

    def after_body(st2):
        st2.ctx = outer
        self.loop_back_edge(st2, idx, spec, it + 1, inv_env, entry)

    def on_break(st2):
        st2.ctx = outer
        st2.path.append('break')
        k(st2)

    def got(st, c):
        t = self.truth(st, c)

        def body(st2):
            st2.ctx = wrap_ctx(outer, on_break=on_break, on_continue=after_body)
            st2.ghost['it'] = VInt(it)
            for g, expr in spec.ghost.items():      # sidecar ghost code: g := expr at iteration start
                st2.ghost[g] = self.spec(st2, expr, inv_env(st2, it), old=self.fn_pre)
            self.exec_block(st2, s.body, after_body)
        self.branch(st, t, body, k, 'loop%d:' % idx)
    return self.ev(st, s.test, got)


def m_s_Break(self, st, s, k):
    return st.ctx.on_break(st)


def m_s_Continue(self, st, s, k):
    return st.ctx.on_continue(st)


def m_listcomp_effect(self, st, n, k):
    """``[f(x) for f in seq]`` used as a statement: desugared into the equivalent for loop
    (the resulting list is discarded)."""
    if len(n.generators) != 1 or n.generators[0].ifs:
        raise Untranslated('list comprehension form')
    g = n.generators[0]
    loop = ast.For(target=g.target, iter=g.iter, body=[ast.Expr(value=n.elt)], orelse=[])
    ast.copy_location(loop, n)
    ast.fix_missing_locations(loop)
    self.loop_ordinals[id(loop)] = self.listcomp_ordinals.get(id(n), -1)
    return self.s_For(st, loop, k)


# ====================================================================== frame checking
def m_check_frame(self, st, pre, c, label):
    """Obligations: every heap location outside c's modifies footprint (and allocated before `pre`)
    has the same content in st as in pre."""
    fp = self.mod_footprint(pre, c, self.fn_env)
    nxt0 = self.fn_pre.heap['next']
    r = fresh('r', T.I)
    for key in pre.heap:
        if key == 'next':
            continue
        a0, a1 = pre.heap[key], st.heap[key]
        if a0.eq(a1):
            continue
        if key in ('slots', 'has'):
            nm = fresh('n', T.S)
            conds = []
            for cdesc in fp.get('slots', []):
                if cdesc[0] == 'obj':
                    conds.append(r == cdesc[1])
                elif cdesc[0] == 'class':
                    conds.append(self.inst_of(r, cdesc[1]))
                elif cdesc[0] == 'cell':
                    conds.append(z3.And(r == cdesc[1], nm == cdesc[2]))
                elif cdesc[0] == 'pred':
                    env = dict(cdesc[3])
                    env['n'] = VStr(nm)
                    conds.append(z3.And(r == cdesc[1], self.spec_bool(pre, cdesc[2], env)))
            infp = z3.Or(conds + [z3.BoolVal(False)])
            g = z3.Implies(z3.And(r < nxt0, z3.Not(infp)),
                           z3.Select(z3.Select(a1, r), nm) == z3.Select(z3.Select(a0, r), nm))
        else:
            if key in ('llen', 'lat'):
                cells = fp.get('list', [])
            elif key.endswith('#has') or key.endswith('#val'):
                cells = fp.get(key[:-3], [])
            elif key.endswith('?'):
                cells = fp.get(key[:-1], [])
            else:
                cells = fp.get(key, [])
            if any(isinstance(cz, str) for cz in cells):
                continue
            g = z3.Implies(z3.And([r < nxt0] + [r != cz for cz in cells]),
                           z3.Select(a1, r) == z3.Select(a0, r))
        lab = '%s: %s unchanged outside modifies' % (label, key)
        if lab in c.known:
            self.clause_obligation(st, c, 'frame', lab, g, 'modifies ' + ', '.join(c.modifies), dict(self.fn_env), self.fn_pre)
        else:
            self.add_obligation(st, 'frame', lab, g, 'modifies ' + ', '.join(c.modifies))


# ====================================================================== function driver
def m_verify_function(self, c):
    """Symbolically execute the real body of contract c; returns the obligations."""
    self.cur = c
    self.obligations = []
    self.extra_hyps = []
    self.ext_pairs = []
    self._facts_added = set()
    self.paths_ended = []
    self.bound_vars = set()
    self.frame_axioms = {}
    del T.MODREG[:]
    node, seg, sha = find_function(c.target)
    self.source_sha = sha
    body = strip_docstring(node.body) if not isinstance(node, ast.Lambda) else [ast.Return(value=node.body)]
    self.dropped_prefix = None
    self.prefix_locals = set()
    if getattr(c, 'body_after_assign', None):
        cut = None
        for i, stmt in enumerate(body):
            for sub in ast.walk(stmt):
                if isinstance(sub, (ast.Assign, ast.AugAssign, ast.AnnAssign)):
                    tg = sub.targets if isinstance(sub, ast.Assign) else [sub.target]
                    if any(isinstance(t, ast.Name) and t.id == c.body_after_assign for t in tg):
                        cut = i
        if cut is None:
            raise Untranslated('no top-level statement assigns %s: cannot cut the body' % c.body_after_assign)
        self.dropped_prefix = dict(statements=cut + 1, first_line=body[0].lineno, last_line=body[cut].end_lineno,
                                   kept_from_line=body[cut + 1].lineno if cut + 1 < len(body) else None,
                                   inputs=sorted(c.locals_in))
        self.used_assumptions.add('PARTIAL FUNCTION: the first %d top-level statements of %s (source lines %d-%d, which compute %s) are dropped; '
                                  'the tail is verified for arbitrary values of those locals subject to the stated preconditions'
                                  % (cut + 1, c.target, body[0].lineno, body[cut].end_lineno, ', '.join(sorted(c.locals_in))))
        self.prefix_problems = check_prefix(body[:cut + 1], getattr(c, 'prefix_checks', []))
        self.prefix_locals = set()
        for stmt in body[:cut + 1]:
            for sub in ast.walk(stmt):
                if isinstance(sub, ast.Name) and isinstance(sub.ctx, ast.Store):
                    self.prefix_locals.add(sub.id)
        self.prefix_locals -= set(c.locals_in)
        body = body[cut + 1:]
    # number loops in source order, relative line numbers for stable path ids
    self.loop_ordinals = {}
    cnt = 0
    first = node.lineno
    for sub in ast.walk(node):
        if hasattr(sub, 'lineno'):
            sub.lineno_rel = sub.lineno - first
    self.listcomp_ordinals = {}

    class LV(ast.NodeVisitor):
        def visit_For(s2, n):
            nonlocal cnt
            self.loop_ordinals[id(n)] = cnt
            cnt += 1
            s2.generic_visit(n)
        visit_While = visit_For

        def visit_Expr(s2, n):
            nonlocal cnt
            if isinstance(n.value, ast.ListComp):
                self.listcomp_ordinals[id(n.value)] = cnt
                cnt += 1
            s2.generic_visit(n)
        def visit_FunctionDef(s2, n):
            if n is node:
                s2.generic_visit(n)
        def visit_Lambda(s2, n):
            if n is node:
                s2.generic_visit(n)
    LV().visit(node)
    # relabel if-branches by ordinal instead of line (stable against comment edits)
    ifc = 0
    for sub in ast.walk(node):
        if isinstance(sub, ast.If):
            sub.lineno_rel = ifc
            ifc += 1

    st = State()
    self.init_heap(st)
    env = {}
    for p, kind in c.params.items():
        if kind == 'none':
            env[p] = VNone()
        else:
            z = fresh(p, self.kind_sort(kind))
            env[p] = self.wrap(kind, z)
            if kind.startswith('ref:'):
                st.assume(z < st.heap['next'])
                st.assume(z >= 0)
                st.assume(self.inst_of(z, kind[4:]))
            if kind == 'list':
                st.assume(z < st.heap['next'])
    st.assume(st.heap['next'] >= 0)
    for p, kind in getattr(c, 'locals_in', {}).items():
        env[p] = self.wrap(kind, fresh(p, self.kind_sort(kind)))
    if getattr(c, 'env', False):
        self.env_init(st)
    st.loc = dict(env)
    for nm, kind in getattr(c, 'closure', {}).items():      # free variables captured from the enclosing function
        cz = fresh(nm, self.kind_sort(kind))
        env[nm] = self.wrap(kind, cz)
        st.loc[nm] = env[nm]
    self.fn_env = env
    # python argument names are locals; check signature agreement
    argnames = [a.arg for a in node.args.args] + ([node.args.vararg.arg] if node.args.vararg else []) + \
        ([node.args.kwarg.arg] if node.args.kwarg else [])
    declared = [p for p in c.params if not p.startswith('ghost_') and p not in getattr(c, 'locals_in', {})]
    if argnames != declared:
        raise Untranslated('signature of %s is %s but the contract declares %s' % (c.target, argnames, declared))
    for r in list(c.requires) + list(c.free_requires):
        st.assume(self.spec_bool(st, r, env))
    for gname, gexpr in c.ghost.items():
        pass
    pre = st.fork()
    self.fn_pre = pre
    self.loop_frame_contract = c
    if getattr(c, 'env', False):
        # vacuity guard: the preconditions together with the environment axioms must not be contradictory
        self.add_obligation(st.fork(), 'must-not-hold', 'vacuity guard: preconditions and environment axioms are satisfiable',
                            z3.BoolVal(False), '')
    for label, ok in getattr(self, 'prefix_problems', None) or []:
        self.add_obligation(State(), 'structure', label, z3.BoolVal(bool(ok)), '')
    self.prefix_problems = None
    if c.loops and cnt != max(c.loops) + 1:
        # loop specifications are keyed by loop ordinal: a body with a different number of loops than the
        # contract specifies no longer is the code the invariants were written for (a named obligation, so
        # that the verdict rule applies: it fails only on a changed function)
        self.add_obligation(State(), 'structure', 'the body has the %d loop(s) the contract specifies (found %d)'
                            % (max(c.loops) + 1, cnt), z3.BoolVal(False), '')
        self.ext = []
        return self.obligations
    for g, expr in getattr(c, 'ghost_init', {}).items():
        st.ghost[g] = self.spec(st, expr, env)
    st.ghost['g_own_raise'] = VBool(False)

    def on_return(st2, v):
        self.end_normal(st2, c, env, pre, v)

    def on_raise(st2, exc):
        self.end_raise(st2, c, env, pre, exc)
    st.ctx = Ctx(on_return, on_raise)
    self.exec_block(st, body, lambda st2: on_return(st2, VNone()))
    # extensionality instances requested by bytes equalities
    self.ext = [T.ext_instance(a, b) for a, b in self.ext_pairs]
    return self.obligations


def check_prefix(stmts, checks):
    """Syntactic facts about the dropped prefix of a partially verified function (the preconditions of the
    tail rely on them).  Returns a list of (label, ok).  Kinds of check:
      ('guard', text)                      some top-level statement of the prefix is exactly `text` (ast.unparse)
      ('flag-string', flag, var, prefix)   exactly one top-level `if <flag>:` assigns var; its else branch is
                                           `var = ''`; its then branch assigns var a string literal (possibly
                                           `literal % ...`) that contains `prefix` (hence is not empty);
                                           no other top-level statement assigns var"""
    out = []

    def assigns(stmt, var):
        return [sub for sub in ast.walk(stmt) if isinstance(sub, ast.Assign)
                and any(isinstance(t, ast.Name) and t.id == var for t in sub.targets)]

    def literal_head(e):
        while isinstance(e, ast.BinOp) and isinstance(e.op, ast.Mod):
            e = e.left
        return e.value if isinstance(e, ast.Constant) and isinstance(e.value, str) else None
    for chk in checks:
        if chk[0] == 'guard':
            ok = any(ast.unparse(s) == chk[1] for s in stmts)
            out.append(('prefix contains `%s`' % chk[1].replace('\n', ' '), ok))
        elif chk[0] == 'const-string':
            # every top-level statement of the prefix that assigns `var` assigns a plain string literal
            # (the same text for every declaration: no formatting, no concatenation)
            var = chk[1]
            asg = [a for s in stmts for a in assigns(s, var)]
            ok = bool(asg) and all(isinstance(a.value, ast.Constant) and isinstance(a.value.value, str) for a in asg)
            out.append(('prefix: %s is a string constant (the same for every declaration)' % var, ok))
        elif chk[0] == 'flag-string':
            _, flag, var, head = chk
            owners = [s for s in stmts if assigns(s, var)]
            ok = len(owners) == 1 and isinstance(owners[0], ast.If) and ast.unparse(owners[0].test) == flag
            if ok:
                st_if = owners[0]
                els = st_if.orelse
                ok = (len(els) == 1 and isinstance(els[0], ast.Assign) and literal_head(els[0].value) == ''
                      and not isinstance(els[0].value, ast.BinOp))
                th = [a for s in st_if.body for a in assigns(s, var)]
                ok = ok and len(th) == 1 and head in (literal_head(th[0].value) or '') and th[0] in st_if.body
            out.append(('prefix: %s is a string containing %r iff %s, else the empty string' % (var, head, flag), ok))
    return out


def m_final_hyps(self, core_hyps, goals):
    """axioms (selected by the symbols that occur), extensionality instances and div/mod hints
    for a group of goals sharing the hypotheses core_hyps"""
    # relevance: a frame axiom that introduces a heap snapshot nobody else mentions is dropped
    core_hyps = list(core_hyps)
    symcache = {}

    def syms_of(e):
        i = e.get_id()
        if i not in symcache:
            symcache[i] = self.symbols_in([e])
        return symcache[i]
    changed = True
    while changed:
        changed = False
        for h in list(core_hyps):
            name = self.frame_axioms.get(h.get_id())
            if name is None:
                continue
            used = any(name in syms_of(o) for o in core_hyps if o is not h) or any(name in syms_of(g) for g in goals)
            if not used:
                core_hyps.remove(h)
                changed = True
    body = list(core_hyps) + list(goals)
    syms = self.symbols_in(body)
    ext = self.ext if 'Bytes' in syms else []
    ax, used = self.axioms_for(body + ext)
    return ax + ext + list(core_hyps) + self.mod_hyps(body), used


def m_apply_ghost(self, st, c, env, pre):
    """Ghost assignments given by the contract (witnesses for existential ghost state)."""
    for target, lam in c.ghost.items():
        base, attr = target.rsplit('.', 1)
        obj = self.spec(st, base, env, old=pre)
        owner, kind = self.attr_kind(obj.cls, attr)
        node = ast.parse(lam, mode='eval').body
        if not isinstance(node, ast.Lambda):        # scalar ghost attribute := expression
            val = SpecEval(self, st, dict(env), pre).ev(node)
            key = '%s.%s' % (owner, attr)
            st.heap[key] = z3.Store(st.heap[key], obj.z, self.unwrap(kind, val))
            continue
        assert kind.startswith('dict:')
        q = z3.Int('q!g')
        env2 = dict(env)
        env2[node.args.args[0].arg] = VInt(q)
        val = SpecEval(self, st, env2, pre).ev(node.body)
        key = '%s.%s#val' % (owner, attr)
        st.heap[key] = z3.Store(st.heap[key], obj.z, z3.Lambda([q], self.unwrap(kind.split(':')[2], val)))


def m_end_normal(self, st, c, env, pre, v):
    self.paths_ended.append(('return', list(st.path)))
    self.apply_ghost(st, c, env, pre)
    env2 = dict(env)
    env2.update({g: v for g, v in st.ghost.items() if isinstance(v, V)})
    if c.returns == 'any':
        env2['result'] = v
    elif c.returns == 'none':
        if not isinstance(v, VNone):
            self.add_obligation(st, 'post', 'returns None', z3.BoolVal(False), 'contract says the function returns None')
    else:
        env2['result'] = v
    for i, e in enumerate(c.ensures):
        try:
            g = self.spec_goal(st, e, env2, old=pre)
        except Untranslated as ex:
            raise Untranslated('ensures#%d of %s: %s' % (i, c.name, ex))
        self.clause_obligation(st, c, 'post', 'post#%d' % i, g, e, env2, pre)
    self.check_frame(st, pre, c, 'frame')


def m_clause_obligation(self, st, c, kind, label, g, text, env, pre):
    """A contract clause; if a known finding is recorded for it, emit the full clause as
    'known-full' (expected to fail while the defect exists) and the residual
    `not case => clause` as the obligation that must be discharged."""
    kf = c.known.get(label)
    if kf is None:
        return self.add_obligation(st, kind, label, g, text)
    case = self.spec_bool(st, kf['case'], env, old=pre)
    self.add_obligation(st, 'known-full:' + kf['id'], label + ' [full]', g, text, split=False)
    self.add_obligation(st, kind, label + ' [residual of %s]' % kf['id'], z3.Implies(z3.Not(case), g),
                        'implies(not (%s), %s)' % (kf['case'], text))


def m_end_raise(self, st, c, env, pre, exc):
    self.paths_ended.append(('raise:' + exc.cls, list(st.path)))
    allowed = None
    unknown = ('Exception*', 'OtherException*')
    # most specific clause first: exact class, then a declared superclass, then the wildcards
    for cls in c.raises:
        if cls == exc.cls:
            allowed = cls
            break
    if allowed is None:
        for cls in c.raises:
            if cls not in unknown and exc.cls not in unknown and exc_le(exc.cls, cls):
                allowed = cls
                break
    if allowed is None:
        for cls in c.raises:
            if cls == 'Exception*' or (cls == 'OtherException*' and exc.cls not in ('PacketError', 'Exception*')):
                allowed = cls
                break
    if allowed is None:
        envn = dict(env)
        envn.update({g: v for g, v in st.ghost.items() if isinstance(v, V)})
        self.clause_obligation(st, c, 'noraise', 'no %s escapes' % exc.cls, z3.BoolVal(False),
                               'path raises %s which the contract does not allow' % exc.cls, envn, pre)
        return
    env2 = dict(env)
    env2.update({g: v for g, v in st.ghost.items() if isinstance(v, V)})
    if exc.ref is not None:
        env2['exc'] = VRef(exc.ref, 'PacketError')
    for i, e in enumerate(c.raises[allowed]):
        g = self.spec_goal(st, e, env2, old=pre)
        self.clause_obligation(st, c, 'raises', 'raises %s#%d' % (allowed, i), g, e, env2, pre)
    self.check_frame(st, pre, c, 'frame(raise)')
