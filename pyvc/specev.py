"""Evaluation of contract expressions (python expression syntax) to symbolic values.

Spec mode: operations are total (their raise conditions are ignored), the
state is never changed, quantifiers and ``old(...)`` are available.
"""
import ast
import z3


def safe_forall(vs, body, patterns=()):
    try:
        return z3.ForAll(vs, body, patterns=list(patterns))
    except z3.Z3Exception:
        return z3.ForAll(vs, body)


def safe_exists(vs, body, patterns=()):
    try:
        return z3.Exists(vs, body, patterns=list(patterns))
    except z3.Z3Exception:
        return z3.Exists(vs, body)

from . import theory as T
from .values import *
from .values import VHeapDict


class SpecEval:
    def __init__(self, eng, st, env, old=None, goal=False):
        self.eng = eng
        self.st = st
        self.env = env
        self.old = old
        self.goal = goal    # positive position of a proof goal: foralls are skolemised

    def neg(self):
        return SpecEval(self.eng, self.st, self.env, self.old, False)

    def sub(self, **kw):
        s = SpecEval(self.eng, self.st, self.env, self.old)
        for k, v in kw.items():
            setattr(s, k, v)
        return s

    def ev(self, n):
        m = getattr(self, 'ev_' + type(n).__name__, None)
        if m is None:
            raise Untranslated('spec: ' + type(n).__name__)
        return m(n)

    def b(self, n):
        return self.eng.truth(self.st, self.ev(n))

    def ev_Constant(self, n):
        c = n.value
        if c is None:
            return VNone()
        if isinstance(c, bool):
            return VBool(c)
        if isinstance(c, int):
            return VInt(c)
        if isinstance(c, str):
            return VStr(c)
        if isinstance(c, bytes):
            return VBytes(bytes_const(self.eng, c))
        raise Untranslated('spec constant %r' % (c,))

    def ev_Name(self, n):
        if n.id in self.env:
            return self.env[n.id]
        if n.id in ('True', 'False'):
            return VBool(n.id == 'True')
        raise Untranslated('spec name %s' % n.id)

    def ev_Attribute(self, n):
        base = self.ev(n.value)
        if isinstance(base, VRef):
            return self.eng.read_attr(self.st, base, n.attr)
        if isinstance(base, VStruct):
            return {'big': VBool(T.SF.sf_big(base.z)), 'size': VInt(T.SF.sf_size(base.z)),
                    'signed': VBool(T.SF.sf_signed(base.z))}[n.attr]
        if isinstance(base, VKw):
            return {'has_ipp': VBool(T.Kw.has_ipp(base.z)), 'ipp': VInt(T.Kw.ipp(base.z)),
                    'root': VInt(T.Kw.root(base.z)), 'has_root': VBool(T.Kw.has_root(base.z)),
                    'packing': VBool(T.Kw.packing(base.z)), 'has_raw': VBool(T.Kw.has_raw(base.z)),
                    'kraw': VBytes(T.Kw.kraw(base.z)), 'has_off': VBool(T.Kw.has_off(base.z)),
                    'koff': VInt(T.Kw.koff(base.z))}[n.attr]
        if isinstance(base, VRx) and n.attr == 'pattern':
            return VBytes(T.rx_pattern(base.z))
        raise Untranslated('spec attribute .%s of %s' % (n.attr, base.kind))

    def ev_BoolOp(self, n):
        if isinstance(n.op, ast.And):
            return VBool(z3.And([self.b(x) for x in n.values]))
        return VBool(z3.Or([self.neg().b(x) for x in n.values]))

    def ev_UnaryOp(self, n):
        if isinstance(n.op, ast.Not):
            return VBool(z3.Not(self.neg().b(n.operand)))
        v = self.ev(n.operand)
        if isinstance(n.op, ast.USub):
            return VInt(-self.eng.as_int(v)[0])
        raise Untranslated('spec unary')

    def ev_BinOp(self, n):
        a, b = self.ev(n.left), self.ev(n.right)
        v, _ = self.eng.binop(self.st, n.op, a, b)
        return v

    def ev_Compare(self, n):
        if self.goal:
            return self.neg().ev_Compare(n)
        left = self.ev(n.left)
        out = []
        for op, r in zip(n.ops, n.comparators):
            right = self.ev(r)
            v, _ = self.eng.compare(self.st, op, left, right)
            out.append(v.z)
            left = right
        return VBool(z3.And(out) if len(out) > 1 else out[0])

    def ev_IfExp(self, n):
        if self.goal:
            return self.neg().ev_IfExp(n)
        c = self.b(n.test)
        a, b = self.ev(n.body), self.ev(n.orelse)
        return merge(c, a, b)

    def ev_Tuple(self, n):
        return VTuple([self.ev(x) for x in n.elts])

    def ev_Subscript(self, n):
        base = self.ev(n.value)
        if isinstance(n.slice, ast.Slice):
            lo = self.ev(n.slice.lower) if n.slice.lower else None
            hi = self.ev(n.slice.upper) if n.slice.upper else None
            v, _ = self.eng.subscript(self.st, base, ('slice', lo, hi, None))
            return v
        v, _ = self.eng.subscript(self.st, base, self.ev(n.slice))
        return v

    def ev_Call(self, n):
        if isinstance(n.func, ast.Name):
            f = n.func.id
            if f == 'old':
                assert self.old is not None, 'old() outside a post-state'
                return SpecEval(self.eng, self.old, self.env, self.old, self.goal).ev(n.args[0])
            if f in ('forall', 'exists'):
                return self.quant(n, f)
            if f == 'implies':
                return VBool(z3.Implies(self.neg().b(n.args[0]), self.b(n.args[1])))
            if f == 'iff':
                return VBool(self.neg().b(n.args[0]) == self.neg().b(n.args[1]))
            if f == 'ite':
                return merge(self.neg().b(n.args[0]), self.neg().ev(n.args[1]), self.neg().ev(n.args[2]))
            if f == 'using':
                # using(H, body): H is a lemma instance; it is proved as a side obligation
                # and may then be used for body (goal mode); in assumptions it is just body
                if not self.goal:
                    return self.ev(n.args[1])
                h = self.neg().b(n.args[0])
                self.eng.side_goals.append((h, ast.unparse(n.args[0])))
                return VBool(z3.Implies(h, self.b(n.args[1])))
            if f == 'len':
                v = self.ev(n.args[0])
                return VInt(length_of(self.eng, self.st, v))
            if f == 'bool':
                return VBool(self.b(n.args[0]))
            if f == 'max':
                a, b = [self.eng.as_int(self.ev(x))[0] for x in n.args]
                return VInt(z3.If(a >= b, a, b))
            if f == 'min':
                a, b = [self.eng.as_int(self.ev(x))[0] for x in n.args]
                return VInt(z3.If(a <= b, a, b))
            if f == 'getattr' and len(n.args) == 2:
                o, nm = self.neg().ev(n.args[0]), self.neg().ev(n.args[1])
                return VDyn(self.eng.slot_get(self.st, o.z, nm.z))
            if f in self.eng.specfuncs:
                args = [self.neg().ev(x) for x in n.args]
                kwargs = {kw.arg: self.neg().ev(kw.value) for kw in n.keywords}
                return self.eng.specfuncs[f](self, *args, **kwargs)
            if f in MACROS:
                params, body = MACROS[f]
                args = [self.neg().ev(x) for x in n.args]
                env = dict(self.env)
                env.update(dict(zip(params, args)))
                return SpecEval(self.eng, self.st, env, self.old, self.goal).ev(ast.parse(body, mode='eval').body)
        raise Untranslated('spec call %s' % ast.dump(n.func))

    def quant(self, n, which):
        lam = n.args[-1]
        assert isinstance(lam, ast.Lambda)
        names = [a.arg for a in lam.args.args]
        skolem = self.goal and which == 'forall'
        # bound variables are integers; a name ending in _s is a str (paths, module names)
        vs = [(z3.String if a.endswith('_s') else z3.Int)('%s!%s%d' % (a, 'sk' if skolem else 'q', next(_q))) for a in names]
        env = dict(self.env)
        for a, v in zip(names, vs):
            env[a] = VStr(v) if a.endswith('_s') else VInt(v)
        if not skolem:
            self.eng.bound_vars.update(v.get_id() for v in vs)
        inner = SpecEval(self.eng, self.st, env, self.old, skolem)
        body = inner.b(lam.body)
        if len(n.args) == 3:
            lo = self.eng.as_int(self.ev(n.args[0]))[0]
            hi = self.eng.as_int(self.ev(n.args[1]))[0]
            rng = z3.And([z3.And(lo <= v, v < hi) for v in vs])
            body = z3.Implies(rng, body) if which == 'forall' else z3.And(rng, body)
        pats = []
        for kw in n.keywords:
            if kw.arg == 'pat':
                p = inner.ev(kw.value.body if isinstance(kw.value, ast.Lambda) else kw.value)
                if isinstance(p, VTuple):
                    pats.append(z3.MultiPattern(*[to_z(x) for x in p.items]))
                else:
                    pats.append(to_z(p))
        if skolem:
            return VBool(body)
        if which == 'exists' and self.goal:
            # witness hints: exists x. P(x) is implied by P(w) for each supplied witness term w
            alts = []
            for kw in n.keywords:
                if kw.arg == 'wit':
                    ws = kw.value.elts if isinstance(kw.value, (ast.List, ast.Tuple)) else [kw.value]
                    for w in ws:
                        wv = self.neg().ev(w)
                        env2 = dict(self.env)
                        env2[names[0]] = VInt(self.eng.as_int(wv)[0])
                        inner2 = SpecEval(self.eng, self.st, env2, self.old, False)
                        b2 = inner2.b(lam.body)
                        if len(n.args) == 3:
                            b2 = z3.And(lo <= env2[names[0]].z, env2[names[0]].z < hi, b2)
                        alts.append(b2)
            if alts:
                return VBool(z3.Or([safe_exists(vs, body, patterns=pats)] + alts))
        if which == 'forall':
            return VBool(safe_forall(vs, body, patterns=pats))
        return VBool(safe_exists(vs, body, patterns=pats))


import itertools
_q = itertools.count()

MACROS = {}


def define(sig, body):
    """define('WF(f)', '<spec expression over f>')"""
    name, rest = sig.split('(')
    params = [p.strip() for p in rest.rstrip(')').split(',') if p.strip()]
    MACROS[name.strip()] = (params, body)


def to_z(v):
    if isinstance(v, (VInt, VBool, VBytes, VStr, VDyn, VList, VRef, VStruct, VKw, VRx)) or v.kind in ('content', 'arr'):
        return v.z
    raise Untranslated('pattern term of kind %s' % v.kind)


def length_of(eng, st, v):
    if isinstance(v, VBytes):
        return T.blen(v.z)
    if isinstance(v, VList):
        return eng.llen(st, v.z)
    if isinstance(v, VTuple):
        return z3.IntVal(len(v.items))
    if isinstance(v, VSeqAbs):
        return v.n
    if isinstance(v, VStr):
        return z3.Length(v.z)
    if isinstance(v, VDyn):
        return z3.If(T.Val.is_VBy(v.z), T.blen(T.Val.byval(v.z)), eng.llen(st, T.Val.lval(v.z)))
    if isinstance(v, VHeapDict):
        # number of keys of a dict attribute: the size function of its key set (the same `dsize` the sorted-items
        # view uses; its defining facts are added when the items are iterated)
        has = z3.Select(st.heap[v.key + '#has'], v.owner)
        n = z3.Function('dsize', has.sort(), T.I)(has)
        k = z3.Int('k!ds')
        fact = z3.And(n >= 0, z3.ForAll([k], z3.Implies(z3.Select(has, k), n >= 1), patterns=[z3.Select(has, k)]))
        if not any(fact.eq(h) for h in eng.extra_hyps):
            eng.extra_hyps.append(fact)
        return n
    raise Untranslated('len of %s' % v.kind)


def merge(c, a, b):
    """if-then-else on symbolic values of the same kind"""
    if type(a) is type(b) and hasattr(a, 'z') and not isinstance(a, VRef):
        return type(a)(z3.If(c, a.z, b.z))
    if isinstance(a, VRef) and isinstance(b, VRef) and a.cls == b.cls:
        return VRef(z3.If(c, a.z, b.z), a.cls)
    if isinstance(a, VNone) and isinstance(b, VNone):
        return a
    try:
        return VDyn(z3.If(c, to_val(a), to_val(b)))
    except Untranslated:
        raise Untranslated('cannot merge %s and %s' % (a.kind, b.kind))


_bconst = {}


def bytes_const(eng, c):
    """A named constant of sort Bytes with its defining facts as extra hypotheses."""
    if c == b'':
        return T.bempty
    if c not in _bconst:
        _bconst[c] = z3.Const('bytes_%s' % c.hex(), T.Bytes)
    z = _bconst[c]
    facts = [T.blen(z) == len(c)] + [T.bat(z, i) == x for i, x in enumerate(c)]
    key = ('bconst', c)
    if key not in eng._facts_added:
        eng._facts_added.add(key)
        eng.extra_hyps.extend(facts)
    return z
