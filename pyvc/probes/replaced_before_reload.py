# K16c: two processes define same-named classes (different declarations) in the same directory; the other
# process replaces the cache module between this process' write and its reload (one interleaving, replayed by
# performing the other process' file operation at that point).
import os, sys, subprocess, tempfile, shutil
repo = sys.argv[1] if len(sys.argv) > 1 else os.environ.get('PYVC_REPO', '/repo')
work = tempfile.mkdtemp(prefix='w16c_')
DECL = '''
import os, sys
import bisturi.codegen as cg
OTHER = os.environ.get('OTHER_MODULE')
if OTHER:
    real = cg.SourceFileLoader
    calls = [0]
    class Loader(real):
        def load_module(self, *a, **k):
            calls[0] += 1
            if calls[0] == int(os.environ['AT_LOAD']):
                # the other process' step: it moves ITS module into place (atomically) right now
                tmp = self.path + '.other'
                open(tmp, 'w').write(open(OTHER).read()); os.replace(tmp, self.path)
            return real.load_module(self, *a, **k)
    cg.SourceFileLoader = Loader
from bisturi.packet import Packet
from bisturi.field import Int, Data
class P(Packet):
%s
raw = bytes(range(1, 9))
p = P.unpack(raw)
print(repr([getattr(p, n) for n, _, _, _ in P.get_fields()]), p.pack().hex())
'''
A = "    a = Int(1)\n    b = Int(2)\n    c = Data(3)\n"
B = "    a = Int(2)\n    b = Data(4)\n"
def define(body, **extra):
    open(os.path.join(work, 'decl.py'), 'w').write(DECL % body)
    env = dict(os.environ, PYTHONPATH=repo, PYTHONDONTWRITEBYTECODE='1', **extra)
    env.pop('OTHER_MODULE', None) if 'OTHER_MODULE' not in extra else None
    p = subprocess.run([sys.executable, 'decl.py'], cwd=work, env=env, capture_output=True, text=True)
    return p.returncode, p.stdout.strip(), (p.stderr.strip().splitlines() or [''])[-1]
mod = os.path.join(work, '__pkts__', 'decl_P.py')
rc, want_b, err = define(B); assert rc == 0, err
other = os.path.join(work, 'module_of_B.py'); shutil.copy(mod, other)
os.remove(mod)
rc, want_a, err = define(A); assert rc == 0, err
bad = []
for start in ('absent', 'holds B'):
    for at in ('1', '2'):
        if start == 'absent':
            os.remove(mod) if os.path.exists(mod) else None
        else:
            shutil.copy(other, mod)
        rc, got, err = define(A, OTHER_MODULE=other, AT_LOAD=at)
        if rc != 0 or got != want_a:
            bad.append('cache %s, other process replaces the module before load #%s: %s' % (start, at, err or 'P (declared a=Int(1), b=Int(2), c=Data(3)) behaves like %s' % got))
shutil.rmtree(work, ignore_errors=True)
print(('REPRODUCED: ' + '; '.join(bad)) if bad else 'not reproduced: in every replayed interleaving the class followed its own declaration')
