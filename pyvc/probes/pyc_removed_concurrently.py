# K16d: the stale bytecode file is removed by another process between os.path.exists and os.remove
import os, sys, subprocess, tempfile, shutil
repo = sys.argv[1] if len(sys.argv) > 1 else os.environ.get('PYVC_REPO', '/repo')
work = tempfile.mkdtemp(prefix='w16d_')
DECL = '''
import os, sys
sys.dont_write_bytecode = False
import bisturi.codegen as cg
if os.environ.get('RACE'):
    class OsPath:
        def __getattr__(self, n): return getattr(os.path, n)
        def exists(self, p):
            r = os.path.exists(p)
            if r and p.endswith('.pyc'):
                os.remove(p)          # the other process' step: it removes the same stale bytecode file right now
            return r
    class Os:
        path = OsPath()
        def __getattr__(self, n): return getattr(os, n)
    cg.os = Os()
from bisturi.packet import Packet
from bisturi.field import Int, Data
class P(Packet):
%s
raw = bytes(range(1, 9))
p = P.unpack(raw)
print(repr([getattr(p, n) for n, _, _, _ in P.get_fields()]), p.pack().hex())
'''
A = "    a = Int(1)\n    b = Int(2)\n    c = Data(3)\n"
B = "    a = Int(2)\n    b = Data(4)\n"
def define(body, **extra):
    open(os.path.join(work, 'decl.py'), 'w').write(DECL % body)
    env = dict(os.environ, PYTHONPATH=repo, **extra)
    env.pop('PYTHONDONTWRITEBYTECODE', None)
    p = subprocess.run([sys.executable, 'decl.py'], cwd=work, env=env, capture_output=True, text=True)
    return p.returncode, p.stdout.strip(), (p.stderr.strip().splitlines() or [''])[-1]
rc, want_b, err = define(B); assert rc == 0, err
rc, _, err = define(A); assert rc == 0, err            # cache (and bytecode) of A
rc, got, err = define(B, RACE='1')                      # redefinition with B, the other process wins the race for the .pyc
shutil.rmtree(work, ignore_errors=True)
if rc != 0 or got != want_b:
    print('REPRODUCED: the definition fails when another process removes the stale bytecode between exists() and remove(): %s' % (err or got))
else:
    print('not reproduced')
