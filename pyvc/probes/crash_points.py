# K16a/b: the writer process dies while it writes the cache module (crash point after every chunk of bytes);
# every later definition of the class must still succeed and follow its own declaration.
import os, sys, subprocess, tempfile, shutil
repo = sys.argv[1] if len(sys.argv) > 1 else os.environ.get('PYVC_REPO', '/repo')
work = tempfile.mkdtemp(prefix='w16_')
CRASHER = '''
import os, sys
import bisturi.codegen as cg
LIMIT = int(os.environ.get('CRASH_AFTER_BYTES', '-1'))
written = [0]
class CrashingFile:
    def __init__(self, f): self.f = f; self.name = getattr(f, 'name', None)
    def write(self, s):
        for ch in s:
            if LIMIT >= 0 and written[0] >= LIMIT:
                self.f.flush(); os._exit(9)          # the process dies here: nothing after this byte reaches the disk
            self.f.write(ch); written[0] += 1
    def __enter__(self): return self
    def __exit__(self, *a): self.f.close(); return False
if LIMIT >= 0:
    import builtins
    cg.open = lambda *a, **k: CrashingFile(builtins.open(*a, **k))
    if hasattr(cg, 'tempfile'):
        real_ntf = cg.tempfile.NamedTemporaryFile
        class T:    # stand-in for the tempfile module as seen by bisturi.codegen
            @staticmethod
            def NamedTemporaryFile(*a, **k): return CrashingFile(real_ntf(*a, **k))
        cg.tempfile = T
'''
DECL = CRASHER + '''
from bisturi.packet import Packet
from bisturi.field import Int, Data
class P(Packet):
%s
raw = bytes(range(1, 9))
p = P.unpack(raw)
print(repr([getattr(p, n) for n, _, _, _ in P.get_fields()]), p.pack().hex())
'''
A = "    a = Int(1)\n    b = Int(2)\n    c = Data(3)\n"
B = "    a = Int(2)\n    b = Data(4)\n"
def define(body, crash_after=-1):
    open(os.path.join(work, 'decl.py'), 'w').write(DECL % body)
    env = dict(os.environ, PYTHONPATH=repo, PYTHONDONTWRITEBYTECODE='1', CRASH_AFTER_BYTES=str(crash_after))
    p = subprocess.run([sys.executable, 'decl.py'], cwd=work, env=env, capture_output=True, text=True)
    return p.returncode, p.stdout.strip(), (p.stderr.strip().splitlines() or [''])[-1]
rc, want_a, err = define(A); assert rc == 0, err
rc, want_b, err = define(B); assert rc == 0, err
size = os.path.getsize(os.path.join(work, '__pkts__', 'decl_P.py'))
bad, tried = [], 0
for cut in list(range(0, size, 11)) + [size - 1]:
    rc, _, _ = define(A)                          # the cache now holds the module of declaration A
    rc, _, _ = define(B, crash_after=cut)         # redefinition with B dies after `cut` bytes of the new module
    if rc != 9:
        continue                                  # (it did not reach the crash point)
    tried += 1
    rc, got, err = define(B)                      # a later, fresh definition of B
    if rc != 0 or got != want_b:
        bad.append((cut, err or 'behaves like %s' % got))
shutil.rmtree(work, ignore_errors=True)
if bad:
    kinds = sorted(set(e.split(':')[0] for _, e in bad))
    print('REPRODUCED: the writer died at %d sampled crash points; after %d of them the next definition of the class fails or misbehaves (%s); e.g. crash after byte %d: %s'
          % (tried, len(bad), ', '.join(kinds), bad[0][0], bad[0][1]))
else:
    print('not reproduced: the writer died at %d sampled crash points and every later definition succeeded and followed its declaration' % tried)
