"""./check <ID> [--tier quick|thorough] [--replay <path>] [--rebaseline]

Decides one property: generates the verification conditions of every function
under contract for the property from /repo's current source, discharges them,
applies the known-findings file, writes evidence/<ID>.json and follows the exit
protocol of DESIGN.md 2.7 (0 held / 1 violation / 2 undecided / 3 crash).
"""
import sys, os, json, time, importlib, hashlib, traceback, subprocess, tempfile, shutil
from concurrent.futures import ProcessPoolExecutor

ROOT = os.path.dirname(os.path.dirname(os.path.abspath(__file__)))
sys.path.insert(0, ROOT)
# development aid: when the engine is pointed at another tree (PYVC_REPO), evidence and replays
# go to a scratch directory so that the committed evidence is only ever written from /repo
OUT = ROOT if os.environ.get('PYVC_REPO', '/repo') == '/repo' else os.environ.get('PYVC_OUT', '/tmp/pyvc_out')

from pyvc.run import gen_function          # noqa: E402
from pyvc.solve import solve_all          # noqa: E402
from pyvc import extract                  # noqa: E402


def load_contracts():
    from contracts import ALL_MODULES
    contracts = {}
    for m in ALL_MODULES:
        contracts.update(importlib.import_module('contracts.' + m).CONTRACTS)
    return contracts


def _gen(name):
    from contracts import schema
    contracts = load_contracts()
    t0 = time.time()
    r = gen_function(schema.CLASSES, contracts, name)
    r['gen_s'] = time.time() - t0
    r.pop('path_list', None)
    return r


def _twin(args):
    name, seed, budget = args
    from pyvc import replay as RP
    c = load_contracts().get(name)
    if c is None:
        return name, dict(error='no contract')
    return name, RP.run_twin(name, c, seed=seed, budget=budget, want=None, timeout=300)


def _lemma(name):
    from contracts import lemmas
    t0 = time.time()
    r = lemmas.generate(name)
    r['gen_s'] = time.time() - t0
    return r


def load_json(path, default):
    try:
        with open(path) as f:
            return json.load(f)
    except FileNotFoundError:
        return default


def run_native(code, timeout=120):
    """Run a python snippet against the real code under /venv/bin/python in a scratch dir."""
    d = tempfile.mkdtemp(prefix='pyvc_replay_')
    try:
        fn = os.path.join(d, 'replay_case.py')
        with open(fn, 'w') as f:
            f.write(code)
        env = dict(os.environ)
        env['PYTHONPATH'] = extract.REPO + os.pathsep + ROOT
        env['PYTHONDONTWRITEBYTECODE'] = '1'
        p = subprocess.run(['/venv/bin/python', fn], cwd=d, env=env, capture_output=True, text=True, timeout=timeout)
        return p.returncode, p.stdout, p.stderr
    except subprocess.TimeoutExpired:
        return 124, '', 'timeout'
    finally:
        shutil.rmtree(d, ignore_errors=True)


def main(argv):
    from contracts import PROPERTIES
    pid = argv[0]
    tier = 'quick'
    if '--tier' in argv:
        tier = argv[argv.index('--tier') + 1]
    tier = os.environ.get('VERIF_TIER', tier) if '--tier' not in argv else tier
    seed = int(os.environ.get('VERIF_SEED', '0'))
    if '--replay' in argv:
        return replay(pid, argv[argv.index('--replay') + 1])
    rebaseline = '--rebaseline' in argv
    prop = PROPERTIES[pid]
    t_start = time.time()
    timeout_ms = 10000 if tier == 'quick' else 60000
    funcs = list(prop['functions'])
    bounded_funcs = list(prop.get('bounded', []))   # twin only: bounded stand-ins, never counted as proved
    lemma_names = list(prop.get('lemmas', []))
    baseline = load_json(os.path.join(ROOT, 'baseline', pid + '.json'), {})
    # a finding is listed under its own property; `also_seen_in` names the other properties whose
    # function sets contain the same obligation (the finding is printed for those as well)
    known = [k for k in load_json(os.path.join(ROOT, 'known_findings.json'), []) if isinstance(k, dict)
             and (k.get('property') == pid or pid in k.get('also_seen_in', []))]

    results = []
    twin_budget = 150 if tier == 'quick' else 1500
    with ProcessPoolExecutor(max_workers=16) as ex:
        f_twin = [ex.submit(_twin, (fn, seed, twin_budget)) for fn in funcs] + \
                 [ex.submit(_twin, (fn, seed, twin_budget * 10)) for fn in bounded_funcs]
        results = list(ex.map(_gen, funcs)) + list(ex.map(_lemma, lemma_names))
        twin = dict(f.result() for f in f_twin)

    crashed = [r for r in results if r['error'] and r['error'].startswith('CRASH')]
    untranslated = [r for r in results if r['error'] and not r['error'].startswith('CRASH')]
    # ---- solve
    from pyvc.solve import solve_groups
    meta, solved, groups = {}, {}, []
    for r in results:
        if r['error']:
            continue
        for (oname, kind, text, info) in r['obligations']:
            meta[oname] = (r['name'], kind, info)
            if text is None:
                solved[oname] = ('unsat', 'trivial', 0.0, '')
        groups += r['groups']
    solved.update(solve_groups(groups, timeout_ms=timeout_ms, second=True, short=('known-full', 'must-not-hold')))

    # ---- classify
    violations, undecided, kf_lines = [], [], []
    n_obl = n_dis = 0
    backends = {}
    solver_s = 0.0
    per_fn = {}
    alpha_renamed = {}
    for r in results:
        fn = r['name']
        st = per_fn.setdefault(fn, dict(sha256=r.get('sha'), obligations=0, discharged=0, paths=r.get('paths', 0),
                                        gen_s=round(r.get('gen_s', 0), 2), error=r['error']))
        for q_, m_ in (r.get('alpha_renamed') or {}).items():
            alpha_renamed[q_] = m_
        if r.get('dropped_prefix'):
            st['partial_function_dropped_prefix'] = r['dropped_prefix']
        if r.get('helpers_inlined'):
            st['helpers_inlined'] = r['helpers_inlined']
        if r['error']:
            continue
        base = baseline.get(fn, {})
        changed = bool(base) and base.get('sha256') != r.get('sha')
        for (oname, kind, text, info) in r['obligations']:
            res, backend, secs, model = solved[oname]
            solver_s += secs
            st['generated'] = st.get('generated', 0) + 1
            if kind == 'must-not-hold':
                # vacuity guard / canary: this query must NOT be unsat (contradictory hypotheses would
                # make every lemma provable)
                if res == 'unsat':
                    undecided.append(dict(obligation=oname, kind=kind, clause='vacuity guard refuted: hypotheses are contradictory',
                                          solver_result=res, solver_output='', function=fn))
                st.setdefault('vacuity_guards', 0)
                st['vacuity_guards'] += 1
                continue
            if kind.startswith('known-full'):
                kid = kind.split(':')[1]
                if res != 'unsat':
                    st.setdefault('known_finding_obligations', []).append(oname)
                    kf_lines.append((kid, oname))
                continue
            n_obl += 1
            st['obligations'] += 1
            if res == 'unsat':
                n_dis += 1
                st['discharged'] += 1
                backends[backend] = backends.get(backend, 0) + 1
                continue
            rec = dict(obligation=oname, kind=kind, clause=info, solver_result=res, solver_output=model[:4000],
                       function=fn, function_changed_since_baseline=changed)
            if res == 'sat' or changed or not base:
                violations.append(rec)
            else:
                undecided.append(rec)

    # ---- run-time twin (bounded cross-check on executions of the real code; never counted as proof)
    twin_summary = {}
    for fn, tr in twin.items():
        if tr.get('error'):
            twin_summary[fn] = dict(status=tr['error'][:200])
            continue
        twin_summary[fn] = dict(valid_cases=tr.get('valid_cases', 0), outcomes=tr.get('outcomes', {}),
                                failures=tr.get('n_failures', 0))
        seen_labels = set()
        for f in tr.get('failures', []):
            if f['label'] in seen_labels:
                continue
            seen_labels.add(f['label'])
            kf = load_contracts()[fn].known.get(f['label'])
            if kf is not None and any(k['id'] == kf['id'] for k in known):
                continue    # the full clause of a recorded finding fails by definition; its residual is proved
            violations.append(dict(obligation='%s/twin/%s' % (fn, f['label']), kind='twin', clause=f['clause'],
                                   solver_result='concrete execution', solver_output='', function=fn,
                                   function_changed_since_baseline=False, twin_input=f))

    # ---- native probe (bounded): environment facts assumed by the model + definition histories on the real builder
    probe_summary = None
    probes = prop.get('native_probe') or []
    if isinstance(probes, str):
        probes = [probes]
    for probe_name in probes:
        try:
            pr = subprocess.run(['/venv/bin/python', os.path.join(ROOT, 'pyvc', probe_name + '.py'), extract.REPO,
                                 str(seed), '60' if tier == 'quick' else '600'],
                                capture_output=True, text=True, timeout=1800)
            pd = json.loads(pr.stdout.strip().splitlines()[-1])
        except Exception as e:
            pd = dict(facts={}, scenarios=[], failures=[dict(part='A', error='probe did not run: %r' % (e,))])
        one = dict(probe=probe_name, environment_facts=pd.get('facts', {}), histories=len(pd.get('scenarios', [])),
                   histories_ok=sum(1 for s_ in pd.get('scenarios', []) if s_.get('ok')),
                   scenarios=[s_.get('history') for s_ in pd.get('scenarios', [])][:40])
        if probe_summary is None:
            probe_summary = one
        else:
            probe_summary.setdefault('more', []).append(one)
        for f in pd.get('failures', []):
            if f.get('part') == 'A':
                # the environment model disagrees with CPython (or the probe did not run): nothing can be concluded from it
                undecided.append(dict(obligation='environment-contract/%s' % f.get('fact', 'probe'), kind='env-probe',
                                      clause='assumed environment fact does not hold natively: %r' % (f,), solver_result='native',
                                      solver_output='', function=prop['functions'][0]))
            elif f.get('step'):
                # a postcondition of a class-builder step (run-time contract on the real method, bounded corpus)
                fn_ = 'packet_builder:PacketClassBuilder.' + f['step']
                violations.append(dict(obligation='%s/post(bounded)/%s' % (fn_, f.get('clause', '?').replace(' ', '_')[:120]),
                                       kind='twin', clause=f.get('clause', ''), solver_result='concrete execution', solver_output='',
                                       function=fn_, function_changed_since_baseline=False, twin_input=f))
            else:
                violations.append(dict(obligation='%s/native-history/%s' % (prop['functions'][0], f.get('history', '?').replace(' ', '_')),
                                       kind='twin', clause=f.get('clause', 'after this history of definitions the class does not behave per its own declaration'),
                                       solver_result='concrete execution', solver_output='', function=prop['functions'][0],
                                       function_changed_since_baseline=False, twin_input=f))

    # vacuity guard: obligation counts must not shrink to zero / below the recorded floor
    for fn, st in per_fn.items():
        floor = prop.get('min_obligations', {}).get(fn, 1)
        if not st['error'] and max(st['obligations'], st.get('generated', 0)) < floor:
            undecided.append(dict(obligation=fn + '/vacuity', kind='vacuity', clause='obligation count %d below floor %d'
                                  % (st['obligations'], floor), solver_result='n/a', solver_output='', function=fn))

    # ---- known findings: print only those that still reproduce natively
    printed = []
    known_ids = {k['id']: k for k in known}
    still = sorted(set(kid for kid, _ in kf_lines))
    for kid in still:
        k = known_ids.get(kid)
        if k is None:
            # a known-full obligation without an entry in known_findings.json for this property: not suppressed
            for kid2, oname in kf_lines:
                if kid2 == kid:
                    violations.append(dict(obligation=oname, kind='known-full', clause='no known_findings.json entry %s for %s' % (kid, pid),
                                           solver_result='unknown', solver_output='', function=meta[oname][0],
                                           function_changed_since_baseline=False))
            continue
        rc, out, err = run_native(k['witness_code'])
        if 'REPRODUCED' in out:
            printed.append('KNOWN-FINDING: property=%s %s: %s' % (pid, kid, k['text']))
        else:
            printed.append('# known finding %s no longer reproduces natively (obligation still open): %s' % (kid, out.strip()[:200]))

    # ---- replay violations
    os.makedirs(os.path.join(OUT, 'replays', pid), exist_ok=True)
    for old_f in os.listdir(os.path.join(OUT, 'replays', pid)):       # replay files of earlier runs are not evidence of this one
        if old_f.startswith('violation_'):
            os.remove(os.path.join(OUT, 'replays', pid, old_f))
    vio_lines = []
    for i, v in enumerate(violations):
        rp = os.path.join(OUT, 'replays', pid, 'violation_%d.json' % i)
        rep = None
        try:
            from pyvc import replay as RP
            if v.get('kind') == 'twin':
                rep = dict(reproduced=True, function=v['function'], failing_input=v['twin_input'],
                           note='clause evaluated to False on an execution of the real function (run-time twin)')
            else:
                rep = RP.try_replay(pid, v, seed)
        except Exception as e:     # the replay machinery must never hide the violation
            rep = dict(reproduced=False, note='replay machinery error: %r' % (e,))
        v['replay'] = rep
        with open(rp, 'w') as f:
            json.dump(dict(property=pid, **v), f, indent=1, default=str)
        tail = '' if rep and rep.get('reproduced') else ' no-failing-input-found'
        vio_lines.append('VIOLATION property=%s replay=%s obligation=%s%s' % (pid, rp, v['obligation'].replace(' ', '_'), tail))

    # ---- evidence
    wall = time.time() - t_start
    assumptions = sorted(set(sum([r.get('assumptions', []) for r in results], [])) | set(prop.get('assumptions', [])))
    samples = []
    for r in results:
        for (oname, kind, text, info) in r['obligations'][:2]:
            samples.append(dict(obligation=oname, kind=kind, clause=info[:300], result=solved[oname][0], backend=solved[oname][1]))
    ev = dict(
        property_id=pid, tier=tier, seed=seed, level=prop.get('level', 'proof'),
        coverage=dict(
            obligations=n_obl, discharged=n_dis,
            checker_cmd='./check %s --tier %s' % (pid, tier),
            trusted_base=prop.get('trusted_base', []) + [
                'pyvc VC generator (semantics of the python subset, DESIGN.md 2.3-2.6)',
                'z3 5.1.0 / z3 4.8.12 / cvc5 1.0.3 soundness'],
            functions_under_contract=per_fn,
            locals_renamed_to_baseline_names=alpha_renamed,
            backends=backends, solver_s=round(solver_s, 2),
            known_finding_obligations=[o for _, o in kf_lines],
            undecided=[u['obligation'] for u in undecided],
            untranslated=[(r['name'], r['error']) for r in untranslated],
            samples=samples[:12],
            runtime_twin_bounded=twin_summary,
            native_probe_bounded=probe_summary,
            bounded_stand_ins=[dict(function=fn, bound='%d seeded random cases (run-time twin)' % (twin_budget * 10),
                                    result=twin_summary.get(fn)) for fn in bounded_funcs],
            explanation=prop.get('explanation', ''),
            termination='not verified (partial correctness)',
        ),
        assumptions=assumptions, wall_s=round(wall, 2), violations=len(violations))
    os.makedirs(os.path.join(OUT, 'evidence'), exist_ok=True)
    with open(os.path.join(OUT, 'evidence', pid + '.json'), 'w') as f:
        json.dump(ev, f, indent=1, default=str)

    if rebaseline:
        os.makedirs(os.path.join(ROOT, 'baseline'), exist_ok=True)
        with open(os.path.join(ROOT, 'baseline', pid + '.json'), 'w') as f:
            recs = {}
            for fn, st in per_fn.items():
                recs[fn] = dict(sha256=st['sha256'], obligations=st['obligations'])
                q = fn.split('#')[-1]
                try:
                    if ':' in q and not q.startswith('ghost_'):
                        ai = extract.alpha_info(extract.find_function(q)[0])
                        if ai is not None:
                            recs[fn].update(locals=ai[0], alpha=ai[1])
                except Exception:
                    pass
            json.dump(recs, f, indent=1, sort_keys=True)

    for l in printed:
        print(l)
    if crashed:
        for r in crashed:
            print('CRASH function=%s\n%s' % (r['name'], r['error']))
        return 3
    if violations:
        for l in vio_lines:
            print(l)
        return 1
    if untranslated or undecided:
        for r in untranslated:
            print('UNDECIDED property=%s function=%s %s' % (pid, r['name'], r['error']))
        for u in undecided:
            print('UNDECIDED property=%s obligation=%s (%s)' % (pid, u['obligation'], u['solver_result']))
        return 2
    print('OK property=%s obligations=%d discharged=%d functions=%d wall=%.1fs' % (pid, n_obl, n_dis, len(per_fn), wall))
    return 0


def replay(pid, path):
    with open(path) as f:
        v = json.load(f)
    from pyvc import replay as RP
    rep = RP.try_replay(pid, v, int(os.environ.get('VERIF_SEED', '0')))
    print(json.dumps(rep, indent=1, default=str))
    return 1 if rep.get('reproduced') else 0


if __name__ == '__main__':
    try:
        sys.exit(main(sys.argv[1:]))
    except SystemExit:
        raise
    except Exception:
        traceback.print_exc()
        sys.exit(3)
