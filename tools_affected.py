#!/usr/bin/env python3
"""usage: PYVC_REPO=<patched tree> python3 tools_affected.py  -> prints the ids of the claimed properties whose functions under
contract differ (source sha) from the baseline recorded in baseline/<ID>.json, plus C03 when the drivers or codegen.py changed."""
import json, os, subprocess, sys
sys.path.insert(0, os.path.dirname(os.path.abspath(__file__)))
from pyvc import extract
out = []
changed = {}
for f in sorted(os.listdir('baseline')):
    pid = f[:-5]
    base = json.load(open(os.path.join('baseline', f)))
    for fn, rec in base.items():
        q = fn.split('#')[-1]
        if ':' not in q or q.startswith('ghost_clients') or q.startswith('lemma'):
            continue
        try:
            sha = extract.find_function(q)[2]
        except Exception:
            sha = None
        if sha != rec.get('sha256'):
            changed.setdefault(pid, set()).add(fn)
if '--cover' in sys.argv:
    # every changed function (and contract variant) is checked once: greedy cover by properties
    todo = set().union(*changed.values()) if changed else set()
    while todo:
        best = max(sorted(changed), key=lambda p_: len(changed[p_] & todo))
        out.append(best)
        todo -= changed[best]
else:
    out = sorted(changed)
d = subprocess.run(['git', '-C', extract.REPO, 'diff', '--name-only'], capture_output=True, text=True).stdout
if ('codegen.py' in d or 'packet.py' in d or 'packet_builder.py' in d or 'fragments.py' in d) and 'C03' not in out:
    out.append('C03')
print(' '.join(out))
