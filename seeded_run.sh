#!/bin/bash
# Run the relevant checks against seeded mutants (scratch worktree outside /repo and /verif).
# usage: seeded_run.sh [prefix of seed id]   - per-seed results in seeded/<id>/result.txt, summary in seeded/RESULTS.txt
cd "$(dirname "$0")"
WT=/tmp/wt/seedrun
git -C /repo worktree remove --force $WT 2>/dev/null
git -C /repo worktree add -q --detach $WT HEAD || exit 1
CLAIMED=$(python3 -c "import json; print(' '.join(c['property_id'] for c in json.load(open('MANIFEST.json'))['checks']))")
for d in seeded/C*-*m*; do
  sid=$(basename $d)
  [ -n "$1" ] && [[ "$sid" != $1* ]] && continue
  : > $d/result.txt
  git -C $WT checkout -q -- . ; git -C $WT clean -fdq
  git -C $WT apply $PWD/$d/patch.diff || { echo "$sid patch does not apply" >> $d/result.txt; continue; }
  for P in $(python3 -c "import json; print(' '.join(json.load(open('$d/meta.json'))['relevant_checks']))"); do
    case " $CLAIMED " in *" $P "*) ;; *) echo "$sid $P not-claimed" >> $d/result.txt; continue;; esac
    out=$(PYVC_REPO=$WT PYVC_OUT=/tmp/pyvc_out_seed ./check $P 2>&1 | grep -v -e WARNING -e "(0,0)" -e KNOWN)
    rc=$(echo "$out" | grep -c '^VIOLATION')
    real=$(echo "$out" | grep '^VIOLATION' | grep -vc 'no-failing-input-found')
    und=$(echo "$out" | grep -c '^UNDECIDED')
    first=$(echo "$out" | grep -m1 -e '^VIOLATION' -e '^UNDECIDED' -e '^CRASH' | sed 's/replay=[^ ]* //' | cut -c1-170)
    echo "$sid $P violations=$rc with_input=$real undecided=$und :: ${first:-OK}" >> $d/result.txt
  done
done
git -C $WT checkout -q -- . ; git -C /repo worktree remove --force $WT; rm -rf /tmp/pyvc_out_seed
cat seeded/C*-*m*/result.txt > seeded/RESULTS.txt 2>/dev/null
cat seeded/RESULTS.txt
