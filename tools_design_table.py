#!/usr/bin/env python3
"""Refresh the seeded-mutant table of DESIGN.md (between the SEED_TABLE markers) from seeded/*/."""
import os, re, subprocess, sys
ROOT = os.path.dirname(os.path.abspath(__file__))
table = subprocess.run([sys.executable, os.path.join(ROOT, 'tools_seed_table.py')], capture_output=True, text=True).stdout.strip()
p = os.path.join(ROOT, 'DESIGN.md')
s = open(p).read()
block = '<!-- SEED_TABLE_BEGIN -->\n' + table + '\n<!-- SEED_TABLE_END -->'
if 'SEED_TABLE_PLACEHOLDER' in s:
    s = s.replace('SEED_TABLE_PLACEHOLDER', block)
else:
    s = re.sub(r'<!-- SEED_TABLE_BEGIN -->.*?<!-- SEED_TABLE_END -->', lambda m: block, s, flags=re.S)
open(p, 'w').write(s)
print('table rows:', table.count('\n') - 1)
