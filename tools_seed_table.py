#!/usr/bin/env python3
"""Markdown table of the seeded mutants and the checks that report them (from seeded/<id>/meta.json and result.txt)."""
import json, os, re
ROOT = os.path.dirname(os.path.abspath(__file__))
rows = []
for sid in sorted(os.listdir(os.path.join(ROOT, 'seeded'))):
    d = os.path.join(ROOT, 'seeded', sid)
    if not os.path.isdir(d):
        continue
    meta = json.load(open(os.path.join(d, 'meta.json')))
    notes = (meta.get('what_it_needs_to_manifest') or '').strip().splitlines()
    first = re.sub(r'^(Mutant|mutant|M)\s*\d+\s*[-:—–]*\s*', '', notes[0] if notes else '').strip()
    caught, missed = [], []
    rp = os.path.join(d, 'result.txt')
    if os.path.exists(rp):
        for l in open(rp):
            m = re.match(r'(\S+) (\S+) violations=(\d+) with_input=(\d+) undecided=(\d+)', l)
            if not m:
                continue
            p, v, wi, und = m.group(2), int(m.group(3)), int(m.group(4)), int(m.group(5))
            if v > 0:
                caught.append(p + (' (input)' if wi else ''))
            elif und > 0:
                missed.append(p + ' undecided')
            else:
                missed.append(p)
    status = ', '.join(caught) if caught else ('**missed**' if missed else 'not run')
    if meta.get('valid_on_current_head') is False:
        status += ' (obsolete on HEAD, see meta.json)'
    rows.append('| %s | %s | %s | %s |' % (sid, first[:150].replace('|', '/'), status, ', '.join(missed) if caught else ''))
print('| seed | change (first line of the author\'s notes) | reported by | relevant checks that stay green |')
print('|---|---|---|---|')
print('\n'.join(rows))
