#!/bin/sh
# run every claimed check on /repo (quick tier) - used before committing evidence
cd "$(dirname "$0")" || exit 3
for i in $(python3 -c "import json; print(' '.join(c['property_id'] for c in json.load(open('MANIFEST.json'))['checks']))"); do
  ./check $i "$@" 2>&1 | grep -v -e WARNING -e "(0,0)"
done
