#!/bin/bash
# Confirm seeded mutants in a scratch worktree of /repo HEAD: patch applies, 40 tests pass,
# demo fails with the patch and passes without.  usage: seeded_confirm.sh <dir with Cxx/mN/{patch.diff,demo.py}>
SRC=${1:-/tmp/seed}
WT=/tmp/wt/confirm
git -C /repo worktree remove --force $WT 2>/dev/null
git -C /repo worktree add -q --detach $WT HEAD || exit 1
for d in $SRC/C*/m*; do
  id=$(basename $(dirname $d))/$(basename $d)
  [ -f $d/patch.diff ] || continue
  git -C $WT checkout -q -- . ; git -C $WT clean -fdq
  (cd $WT && PYTHONPATH=$WT /venv/bin/python $d/demo.py >/dev/null 2>&1); clean=$?
  if ! git -C $WT apply $d/patch.diff 2>/dev/null; then echo "$id PATCH-DOES-NOT-APPLY (demo clean exit=$clean)"; continue; fi
  tests=$(cd $WT && /venv/bin/python -m pytest -q -p no:cacheprovider --timeout=900 2>&1 | tail -1)
  (cd $WT && PYTHONPATH=$WT /venv/bin/python $d/demo.py >/dev/null 2>&1); mut=$?
  echo "$id clean_demo_exit=$clean mutant_demo_exit=$mut tests: $tests"
done
git -C $WT checkout -q -- . ; git -C /repo worktree remove --force $WT
